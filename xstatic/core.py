"""Obligations, rule registry, reports, evidence and known findings."""

from __future__ import annotations

import ast
import json
import os
import time
from typing import Callable, Dict, List, Optional

from .program import AnalysisError, Program, FuncInfo
from .cfg import CFGCache

VERIF = os.path.dirname(os.path.dirname(os.path.abspath(__file__)))

DISCHARGED = "discharged"
VIOLATED = "violated"


class Obligation:
    def __init__(self, prop: str, rule: str, construct: str, where: str, status: str,
                 detail: str, message: str = "", path: Optional[List[str]] = None):
        self.prop = prop
        self.rule = rule
        self.construct = construct
        self.where = where
        self.status = status
        self.detail = detail
        self.message = message or detail
        self.path = path or []

    @property
    def key(self) -> str:
        # a method pulled up into a base class is analysed per subclass under `<cls>.<name>@inherited`; the
        # obligation (and a finding recorded against it) is about what instances of <cls> run, wherever it is defined
        return "%s|%s|%s|%s" % (self.prop, self.rule, self.construct.replace("@inherited", ""), self.detail)

    def as_dict(self) -> dict:
        d = {"property": self.prop, "rule": self.rule, "construct": self.construct,
             "where": self.where, "status": self.status, "detail": self.detail,
             "message": self.message, "key": self.key}
        if self.path:
            d["path"] = self.path
        return d

    def line(self) -> str:
        s = "%s/%s %-10s %s %s\n   %s" % (self.prop, self.rule, self.status, self.where, self.construct,
                                         self.message)
        for p in self.path:
            s += "\n     . " + p
        return s


class RuleDef:
    def __init__(self, prop, rid, fn, floor, desc, kind):
        self.prop = prop
        self.rid = rid
        self.fn = fn
        self.floor = floor
        self.desc = desc
        self.kind = kind


RULES: Dict[str, List[RuleDef]] = {}


def rule(prop: str, rid: str, floor: int = 1, desc: str = "", kind: str = "S"):
    """Register a rule.  *floor* = minimum number of obligations the rule must
    produce (instances confirmed by hand on the pinned tree); fewer is an
    ANALYSIS-ERROR, because a rule that matches nothing passes vacuously."""

    def deco(fn: Callable):
        RULES.setdefault(prop, []).append(RuleDef(prop, rid, fn, floor, desc or (fn.__doc__ or "").strip().split("\n")[0], kind))
        return fn

    return deco


CURRENT = None   # the Ctx of the property being evaluated (for the inline-aware syntax walk)


def walk_local(fnode):
    """``program.walk_local`` plus the bodies of the helpers inlined into that function (see inline.py).

    Rules that inspect the syntax of an anchored function use this walk, so that code moved into a helper
    unknown to the reference tree is still seen where it is called."""
    from .program import walk_local as _wl
    given = fnode if isinstance(fnode, FuncInfo) else None   # a FuncInfo: its own (per-class) inlining is walked
    if given is not None:
        fnode = given.node
    yield from _wl(fnode)
    ctx = CURRENT
    if ctx is None:
        return
    fi = given or ctx.func_of_node(fnode)
    if fi is None:
        return
    try:
        cfg = ctx.cfgs.get(fi)
    except AnalysisError:
        return
    from .inline import SplicedBody
    for body in cfg.inlined_bodies:
        todo = list(reversed(body))
        while todo:
            n = todo.pop()
            yield n
            if isinstance(n, (ast.FunctionDef, ast.AsyncFunctionDef, ast.ClassDef, ast.Lambda)):
                continue
            if isinstance(n, SplicedBody):
                # the caller's own statements (already walked); only the synthesised binding is new
                if n.body:
                    todo.append(n.body[0])
                continue
            todo.extend(ast.iter_child_nodes(n))


class Ctx:
    """Everything a rule may consult."""

    def __init__(self, repo: str, tier: str = "quick"):
        self.repo = os.path.abspath(repo)
        self.tier = tier
        self.program = Program(self.repo)
        self.cfgs = CFGCache(self.program)
        from . import dataflow as _df
        _df.RECORD_FIELDS = self._record_fields
        names = set()
        for ci in self.program.classes.values():
            from .program import dotted as _d
            bases = {(_d(b) or "").split(".")[-1] for b in ci.node.bases}
            decos = {(_d(x if not isinstance(x, ast.Call) else x.func) or "").split(".")[-1] for x in ci.node.decorator_list}
            if "NamedTuple" in bases or "dataclass" in decos:
                names |= {st.target.id for st in ci.node.body if isinstance(st, ast.AnnAssign) and isinstance(st.target, ast.Name)}
        _df.RECORD_FIELD_NAMES = names
        _df.RECORD_RESULT_INDEX = self._record_result_index
        self._summaries = None
        self.notes: List[str] = []
        self.functions_analysed: set = set()
        self._cur = None

    @property
    def P(self) -> Program:
        return self.program

    @property
    def summaries(self):
        if self._summaries is None:
            from .summaries import Summaries
            self._summaries = Summaries(self)
        return self._summaries

    def cfg(self, fi: FuncInfo):
        self.functions_analysed.add(fi.qualname)
        return self.cfgs.get(fi)

    def func(self, q: str) -> FuncInfo:
        self.functions_analysed.add(q)
        return self.program.func(q)

    def absorbed(self, fi: FuncInfo) -> bool:
        """*fi* is a helper unknown to the reference tree whose every call site was inlined: its code is analysed
        where it is called, so rules that range over 'all functions of X' leave the stand-alone copy alone."""
        inl = self.cfgs.inliner
        if not inl.is_new(fi):
            return False
        if not getattr(self, "_all_built", False):
            for f in self.program.all_funcs():
                try:
                    self.cfgs.get(f)
                except AnalysisError:
                    pass
            self._all_built = True
        return fi.qualname in inl.inlined and not inl.declined_sites.get(fi.qualname)

    def _record_fields(self, where, node_or_call, call=None):
        """Ordered field names if *call* constructs a NamedTuple / dataclass defined in the program.
        *where* is a module, or a function together with the CFG node the call is evaluated at (code inlined
        from a helper of another module resolves its names there)."""
        from .program import dotted as _d
        if call is None:
            module, call = where, node_or_call
        else:
            module = where.module
            q = getattr(node_or_call, "extra", {}).get("inlined_from") if node_or_call is not None else None
            if q and q in self.program.functions:
                module = self.program.functions[q].module
        d = _d(call.func)
        if d is None:
            return None
        kind, obj = self.program.resolve_dotted(module, d)
        if kind != "class":
            return None
        bases = {(_d(b) or "").split(".")[-1] for b in obj.node.bases}
        decos = {(_d(x if not isinstance(x, ast.Call) else x.func) or "").split(".")[-1] for x in obj.node.decorator_list}
        if "NamedTuple" not in bases and "dataclass" not in decos:
            return None
        return [st.target.id for st in obj.node.body if isinstance(st, ast.AnnAssign) and isinstance(st.target, ast.Name)]

    def _record_class_fields(self, ci) -> Optional[List[str]]:
        from .program import dotted as _d
        bases = {(_d(b) or "").split(".")[-1] for b in ci.node.bases}
        decos = {(_d(x if not isinstance(x, ast.Call) else x.func) or "").split(".")[-1] for x in ci.node.decorator_list}
        if "NamedTuple" not in bases and "dataclass" not in decos:
            return None
        return [st.target.id for st in ci.node.body if isinstance(st, ast.AnnAssign) and isinstance(st.target, ast.Name)]

    def _returned_record(self, t: FuncInfo, depth: int = 0) -> Optional[List[str]]:
        """Field names of the record class every `return` / `yield` of *t* constructs (or its return annotation names)."""
        from .program import dotted as _d
        cache = self.__dict__.setdefault("_ret_rec", {})
        if t.qualname in cache:
            return cache[t.qualname]
        cache[t.qualname] = None
        res = None
        ann = getattr(t.node, "returns", None)
        names = []
        if ann is not None:
            for x in ast.walk(ann):
                if isinstance(x, (ast.Name, ast.Attribute)) and _d(x):
                    names.append(_d(x))
                elif isinstance(x, ast.Constant) and isinstance(x.value, str):
                    names.append(x.value.strip())
        for nm in names:
            try:
                kind, obj = self.program.resolve_dotted(t.module, nm, t)
            except Exception:
                continue
            if kind == "class":
                f_ = self._record_class_fields(obj)
                if f_:
                    res = f_
        if res is None and depth < 3:
            found = []
            ok = True
            for x in walk_local(t.node):
                v = None
                if isinstance(x, ast.Return):
                    v = x.value
                elif isinstance(x, ast.Yield):
                    v = x.value
                else:
                    continue
                if isinstance(v, ast.Await):
                    v = v.value
                if v is None or (isinstance(v, ast.Constant) and v.value is None):
                    continue
                if not (isinstance(v, ast.Call) and _d(v.func)):
                    ok = False
                    break
                try:
                    kind, obj = self.program.resolve_dotted(t.module, _d(v.func), t)
                except Exception:
                    ok = False
                    break
                f_ = self._record_class_fields(obj) if kind == "class" else (self._returned_record(obj, depth + 1) if kind == "func" else None)
                if not f_:
                    ok = False
                    break
                found.append(tuple(f_))
            if ok and found and len(set(found)) == 1:
                res = list(found[0])
        cache[t.qualname] = res
        return res

    def _record_result_index(self, fi: FuncInfo, node, call, attr: str) -> Optional[int]:
        if isinstance(call, ast.Await):
            call = call.value
        if not isinstance(call, ast.Call):
            return None
        where_fi = fi
        q = getattr(node, "extra", {}).get("inlined_from") if node is not None else None
        try:
            res = self.program.resolve_call(where_fi, call)
        except Exception:
            return None
        idxs = set()
        for t in res.targets:
            f_ = self._returned_record(t)
            if not f_ or attr not in f_:
                return None
            idxs.add(f_.index(attr))
        return idxs.pop() if len(idxs) == 1 else None

    def module_at(self, fi: FuncInfo, node):
        """The module whose names the code at CFG *node* of *fi* refers to (the helper's module for inlined code)."""
        q = getattr(node, "extra", {}).get("inlined_from") if node is not None else None
        if q and q in self.program.functions:
            return self.program.functions[q].module
        return fi.module

    def func_of_node(self, fnode) -> Optional[FuncInfo]:
        m = getattr(self, "_by_node", None)
        if m is None:
            m = self._by_node = {id(f.node): f for f in self.program.all_funcs()}
        return m.get(id(fnode))

    def method(self, cls_q: str, name: str) -> FuncInfo:
        f = self.program.method(cls_q, name)
        self.functions_analysed.add(f.qualname)
        return f

    def own_method(self, cls_q: str, name: str) -> FuncInfo:
        f = self.program.own_method(cls_q, name)
        self.functions_analysed.add(f.qualname)
        return f

    def home_method(self, cls_q: str, name: str) -> FuncInfo:
        """The function instances of *cls_q* run for *name*.  When the definition was pulled up above the class
        that defines it in the reference tree (template method with hooks), it is analysed as a member of that
        reference class, so that hooks bind to the back end and the obligation keeps its identity."""
        P = self.program
        ci = P.cls(cls_q)
        actual = P.lookup_method(ci, name)
        if actual is None:
            raise AnalysisError("method %s.%s not found" % (cls_q, name))
        from .inline import load_reference
        ref = load_reference() or set()
        home = next((c for c in ci.mro if "%s.%s" % (c.qualname, name) in ref), None)
        if home is not None and actual.cls in ci.mro and ci.mro.index(actual.cls) > ci.mro.index(home):
            return self.own_method(home.qualname, name)
        self.functions_analysed.add(actual.qualname)
        return actual

    def note(self, s: str):
        self.notes.append(s)

    # obligation constructors bound to the running rule
    def ok(self, construct, where, detail, message="") -> Obligation:
        return Obligation(self._cur.prop, self._cur.rid, construct, where, DISCHARGED, detail, message)

    def bad(self, construct, where, detail, message="", path=None) -> Obligation:
        return Obligation(self._cur.prop, self._cur.rid, construct, where, VIOLATED, detail, message, path)

    def ob(self, cond: bool, construct, where, detail, message="", bad_message="", path=None) -> Obligation:
        if cond:
            return self.ok(construct, where, detail, message)
        return self.bad(construct, where, detail, bad_message or message, path)


# -- known findings -------------------------------------------------------------

def load_known(path: Optional[str] = None) -> dict:
    path = path or os.path.join(VERIF, "known_findings.json")
    if not os.path.exists(path):
        return {"known": [], "fixed": []}
    with open(path) as f:
        d = json.load(f)
    d.setdefault("known", [])
    d.setdefault("fixed", [])
    return d


# -- running ----------------------------------------------------------------------

class PropertyRun:
    def __init__(self, prop: str, tier: str):
        self.prop = prop
        self.tier = tier
        self.obligations: List[Obligation] = []
        self.rule_instances: Dict[str, int] = {}
        self.rule_descs: Dict[str, str] = {}
        self.errors: List[str] = []
        self.wall = 0.0
        self.ctx: Optional[Ctx] = None
        self.selftest: Optional[dict] = None

    @property
    def violated(self) -> List[Obligation]:
        return [o for o in self.obligations if o.status == VIOLATED]


def run_property(prop: str, repo: str, tier: str = "quick", ctx: Optional[Ctx] = None,
                 only_rule: Optional[str] = None) -> PropertyRun:
    from . import rules as _rules  # noqa: F401  (registers the rules)

    run = PropertyRun(prop, tier)
    t0 = time.time()
    try:
        ctx = ctx or Ctx(repo, tier)
        ctx.program.confirm_receiver_table()
    except AnalysisError as e:
        run.errors.append("loader: %s" % e)
        run.wall = time.time() - t0
        return run
    run.ctx = ctx
    global CURRENT
    CURRENT = ctx
    defs = RULES.get(prop, [])
    if not defs:
        run.errors.append("no rules registered for %s" % prop)
    for rd in defs:
        if only_rule and rd.rid != only_rule:
            continue
        ctx._cur = rd
        run.rule_descs[rd.rid] = "[%s] %s" % (rd.kind, rd.desc)
        try:
            obs = list(rd.fn(ctx))
            run.obligations.extend(obs)
            run.rule_instances[rd.rid] = len(obs)
            if len(obs) < rd.floor:
                # positively identified violations are still reported; the shortfall itself is an analysis error
                raise AnalysisError("rule matched %d instance(s), fewer than the confirmed floor %d"
                                    % (len(obs), rd.floor))
        except AnalysisError as e:
            run.errors.append("%s/%s: %s" % (prop, rd.rid, e))
        except RecursionError as e:  # pragma: no cover
            run.errors.append("%s/%s: recursion limit (%s)" % (prop, rd.rid, e))
    run.wall = time.time() - t0
    return run


def classify(run: PropertyRun, known: dict):
    """Split violated obligations into (new, known) and list the fixed keys that recurred."""
    known_keys = {k["key"]: k for k in known.get("known", []) if k.get("property") == run.prop}
    fixed_keys = {k["key"]: k for k in known.get("fixed", []) if k.get("property") == run.prop}
    new, kn, regress = [], [], []
    seen = set()
    for o in run.violated:
        if o.key in seen:
            continue
        seen.add(o.key)
        if o.key in known_keys:
            kn.append((o, known_keys[o.key]))
        else:
            new.append(o)
            if o.key in fixed_keys:
                regress.append((o, fixed_keys[o.key]))
    return new, kn, regress


def _full_explanation(prop, meta):
    try:
        from .meta import full_explanation
        return full_explanation(prop)
    except Exception:
        return meta.get("explanation", "")


def write_evidence(run: PropertyRun, new, kn, meta: dict, seed: int, out_dir: Optional[str] = None) -> str:
    out_dir = out_dir or os.path.join(VERIF, "evidence")
    os.makedirs(out_dir, exist_ok=True)
    obs = run.obligations
    distinct = len({o.key for o in obs})
    ctx = run.ctx
    samples = [o.as_dict() for o in obs[:6]]
    for o, _k in kn[:3]:
        samples.append(o.as_dict())
    for o in new[:5]:
        samples.append(o.as_dict())
    stats = ctx.program.stats if ctx else {}
    cov = {
        "explanation": _full_explanation(run.prop, meta),
        "rule": "one obligation per rule instance found in /repo's current source; the obligation set of "
                "each rule is enumerated completely (finite), so every instance is decided, not sampled",
        "obligations": len(obs),
        "discharged": len([o for o in obs if o.status == DISCHARGED]),
        "violated_known": len(kn),
        "violated_new": len(new),
        "evaluations": max(len(obs), 1),
        "distinct_nontrivial": max(distinct, 0),
        "exhaustive": not run.errors,
        "rule_instances": run.rule_instances,
        "rules": run.rule_descs,
        "functions_analysed": len(ctx.functions_analysed) if ctx else 0,
        "functions_analysed_names": sorted(ctx.functions_analysed)[:200] if ctx else [],
        "modules_parsed": len(ctx.program.modules) if ctx else 0,
        "functions_in_program": len(ctx.program.functions) if ctx else 0,
        "call_sites": stats,
        "analysis_errors": run.errors,
        "notes": (ctx.notes if ctx else [])[:50],
        "samples": samples or [{"note": "no obligations produced"}],
        "checker_cmd": meta.get("cmd", ""),
        "trusted_base": meta.get("trusted_base", []),
        "not_decided": meta.get("not_decided", []),
    }
    if run.selftest is not None:
        cov["selftest"] = run.selftest
    ev = {
        "property_id": run.prop,
        "tier": run.tier,
        "seed": seed,
        "level": "other",
        "coverage": cov,
        "assumptions": meta.get("trusted_base", []),
        "wall_s": round(run.wall, 3),
        "violations": len(new),
    }
    path = os.path.join(out_dir, "%s.json" % run.prop)
    tmp = path + ".tmp"
    with open(tmp, "w") as f:
        json.dump(ev, f, indent=1, sort_keys=False)
        f.write("\n")
    os.replace(tmp, path)
    return path


def write_replays(run: PropertyRun, new: List[Obligation], out_dir: Optional[str] = None) -> List[str]:
    out_dir = out_dir or os.path.join(VERIF, "evidence", "replay")
    os.makedirs(out_dir, exist_ok=True)
    paths = []
    for i, o in enumerate(new):
        p = os.path.join(out_dir, "%s-%d.json" % (run.prop, i))
        with open(p, "w") as f:
            json.dump(o.as_dict(), f, indent=1)
            f.write("\n")
        paths.append(p)
    return paths
