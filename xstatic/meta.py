"""Per-property descriptions used in evidence files."""

META = {
    "C01": {
        "explanation": "Static necessary conditions of C01 decided on /repo's source: (O1) CFG reachability in every "
                       "store function - no 4xx-refusal can follow the normal completion of a visible mutation; (O2) the same "
                       "for the PUT/POST/DELETE/MKCOL/MKCALENDAR/PROPPATCH handlers using interprocedural may-raise summaries; "
                       "(H1) def-use: resources are minted only from store listings; (H2/H3) lister/writer table agreement on "
                       "hidden names; (F1) def-use frame rule for member operations. Behavioural read-back equality is not decided.",
        "trusted_base": ["dulwich do_commit/object store semantics", "os.replace/os.unlink atomicity",
                         "call resolution by class-hierarchy analysis (xstatic.program)"],
        "not_decided": ["byte-for-byte read-back", "front-end equivalence", "restarts", "anything inside dulwich"],
    },
}
