"""Per-property descriptions used in evidence files."""

META = {
    "C01": {
        "explanation": "Static necessary conditions of C01 decided on /repo's source: (O1) CFG reachability in every "
                       "store function - no 4xx-refusal can follow the normal completion of a visible mutation; (O2) the same "
                       "for the PUT/POST/DELETE/MKCOL/MKCALENDAR/PROPPATCH handlers using interprocedural may-raise summaries; "
                       "(H1) def-use: resources are minted only from store listings; (H2/H3) lister/writer table agreement on "
                       "hidden names; (F1) def-use frame rule for member operations. Behavioural read-back equality is not decided.",
        "trusted_base": ["dulwich do_commit/object store semantics", "os.replace/os.unlink atomicity",
                         "call resolution by class-hierarchy analysis (xstatic.program)"],
        "not_decided": ["byte-for-byte read-back", "front-end equivalence", "restarts", "anything inside dulwich"],
    },
    "C03": {
        "explanation": "Static clauses of C03: (H1) table agreement - each header name the handlers read, folded through the "
                       "WSGI adapter's key expression from its CGI spelling, must come out as the same name; (P1) guard analysis on "
                       "the CFG of PUT/DELETE/GET: every path to an effect passes the etag_matches test or the header-absent edge, "
                       "and the failing edge cannot reach the effect and answers 412/304; (P2) def-use: the etag tested is "
                       "r.get_etag() of the addressed resource and is the value handed down; (P3) the same guard analysis on the "
                       "store API (_check_duplicate, delete_one). String semantics of etag_matches are not decided.",
        "trusted_base": ["multidict.CIMultiDict is case-insensitive", "PEP 3333 CGI spelling of header names"],
        "not_decided": ["etag_matches on malformed lists / weak validators"],
    },
    "C14": {
        "explanation": "Necessary conditions of C14 decided on source: (V1) must-pass-through on the CFG of both import_one - "
                       "validate() of the File built from the uploaded data completes before every visible mutation, and the bytes "
                       "handed to storage are that object's normalized(); (V2) the validators are registered on every opened store "
                       "and raise on the documented conditions, parser errors are translated; (V3) exception-translation chain "
                       "InvalidFileContents -> valid-calendar-data -> 412; (V4) no-op guard before commit. The fixed-point half "
                       "(to_ical . from_ical idempotent) is a property of the icalendar library and is not decided.",
        "trusted_base": ["icalendar.Calendar.from_ical / cal.errors", "vobject.readOne / validate()"],
        "not_decided": ["idempotence of the icalendar serialiser on its own output"],
    },
    "C09": {
        "explanation": "Structural clauses of C09: (K1) the _commit_tree call is reachable only through the 'changed' side of the "
                       "id comparison; (K2) who-may-move-a-ref: zero ref writes outside do_commit, do_commit only from _commit_tree "
                       "with the store's ref (positive control fixture must match); (K3) pairing of working-tree write, index entry "
                       "and commit inside the critical section; (K4) who-may-write inside a working tree; (K5) def-use: the tree "
                       "committed is the tree built and added. What git fsck says is inside dulwich and not decided.",
        "trusted_base": ["dulwich Repo.do_commit appends one commit whose parent is the current head of ref"],
        "not_decided": ["git fsck result", "exactly-one-commit beyond K1/K2"],
    },
    "C06": {
        "explanation": "Structural clauses of C06: (U1) must-pass-through - _check_duplicate completes before every mutation, gets the "
                       "uploaded object's UID, refreshes the map before the lookup and refuses only under existing_name != name; (U2) "
                       "paired-map coherence of _fname_to_uid/_uid_to_fname in _scan_uids (def-use on the two subscripted attributes); "
                       "(U3) DuplicateUidError -> no-uid-conflict -> 412 chain; (U4) shape of get_uid. UID string equivalence is not decided.",
        "trusted_base": ["icalendar component['UID'] lookup"],
        "not_decided": ["UID equivalence classes (case, escapes)"],
    },
    "C04": {
        "explanation": "Ordering / ownership facts decided on the CFG: (A1/A2) file-open typestate - every write-mode open in the "
                       "store layer targets a temporary name that is then os.replace()d onto its target on every normal path; (B1) "
                       "objects are added before the index entry / ref naming them (must-pass-through); (B2) reachability - the tree "
                       "store's read API never opens the working-tree file; (B3) index mutations only inside locked_index, whose "
                       "__exit__ aborts on every error path. States inside dulwich calls are not decided.",
        "trusted_base": ["POSIX rename atomicity", "dulwich GitFile (lock file + rename)", "dulwich loose-object writes are atomic",
                         "do_commit updates the ref by lock-file rename"],
        "not_decided": ["intermediate on-disk states inside dulwich calls", "fsync/durability of acknowledged writes"],
    },
    "C05": {
        "explanation": "Lock-discipline analysis (the statically decidable part of C05): (L0) every index mutation, working-tree "
                       "change and commit of the tree store lies inside `with locked_index(self.repo.index_path())` and the "
                       "FileLocked->LockedError->ResourceLocked->423 chain exists; (L1) the reads a refusal depends on lie inside the "
                       "same critical section; (L2) the bare store's read-modify-commit has a lock or a compare-and-set on the "
                       "observed head; (L3) shared uid maps are mutated under a lock. L1-L3 are violated on the pinned tree and are "
                       "recorded as known findings (each reproduced with a forced two-thread schedule); the linearizability statement "
                       "itself quantifies over schedules and is not decided - it is refuted by these necessary conditions.",
        "trusted_base": ["dulwich GitFile raises FileLocked when <index>.lock exists", "asyncio.to_thread runs in a worker thread"],
        "not_decided": ["the set of interleavings actually possible", "cross-process behaviour beyond the index lock"],
    },
    "C13": {
        "explanation": "Interprocedural provenance (taint) analysis over a lattice of path shapes {SEG, SEG?, NORM, RELNORM, CONFIG, "
                       "RAW_ABS, RAWN, RAW, FSPATH, STOREPATH}: sources are request.path/raw_path/url/match_info/environ and hrefs "
                       "read from request bodies; normpath, the startswith('/') guard idiom, posixpath.join/split, lstrip('/') are "
                       "modelled; parameters/fields/returns are joined over all resolved call sites to a fixed point. Obligations: "
                       "(P1) every argument of _map_to_file_path is NORM|CONFIG and the component joined onto the root is relative; "
                       "(P2) names joined onto a store directory are single segments and every relpath field is NORM; (P3) every "
                       "os/shutil/open call of the web layer takes its path from P1's result, a store path or configuration. Every "
                       "request-derived value is top until normalised, so what the front ends deliver for encoded dots is irrelevant.",
        "trusted_base": ["posixpath.normpath of an absolute path has no '..' segment", "os.listdir / git tree entries are single segments",
                         "dulwich's HTTP git backend for /.git/ URLs"],
        "not_decided": ["symlinks inside the data directory", "behaviour of the dulwich wsgi chain under /.git/"],
    },
    "C15": {
        "explanation": "Table-agreement and must-pass-through rules for collection metadata: (M1) for each back end and field the "
                       "storage key read by get_X equals the key written/deleted by set_X (constants folded from the source); (M2) "
                       "every normal exit of every setter passes its save routine, and the save callbacks write to storage; (M3) every "
                       "ConfigParser is built with interpolation=None; (M4) the property -> resource -> store -> config accessor "
                       "chains of each settable property end at the same field. Escaping inside configparser / dulwich's config "
                       "writer is value-level and not decided.",
        "trusted_base": ["configparser with interpolation=None stores option values verbatim", "dulwich ConfigFile.set/get"],
        "not_decided": ["escaping of quotes, '#', newlines in configparser / dulwich config", "interleavings over several collections"],
    },
    "C10": {
        "explanation": "Structural necessary conditions of index transparency (the index path is never executed by the suite): "
                       "(X1) the key prefixes produced by index_keys methods are a subset of those ICalendarFile._get_index handles; "
                       "(X2) per filter class match_indexes reads only prefixes its index_keys yields; (X3) a multi-key matcher must not "
                       "collapse a multi-valued entry by a constant subscript; (X4) on a miss all available keys are computed and the "
                       "index is keyed by the (name, etag) of the listing tuple; (X5) reset empties both tables, an etag is marked "
                       "after its values are stored, an unknown etag is a miss; (X7) sibling contradiction between naive and index "
                       "iteration for unparseable members. X1, X3 and X7 are violated on the pinned tree (known findings, each "
                       "reproduced). The value-level equivalence check_from_indexes(get_indexes(f)) == check(f) is not decided.",
        "trusted_base": ["icalendar property to_ical/from_ical round trip for index values"],
        "not_decided": ["value-level equivalence of the naive and the index evaluator for all files and filters"],
    },
    "C12": {
        "explanation": "Dispatch, exception-escape and ordering rules for addressbook-query: (A1) _match has a branch per RFC 6352 "
                       "match type, each returning an expression over BOTH operands with the right primitive; (A2) no strict narrow "
                       "codec (ascii/latin-1 without errors=) on the evaluation path; (A3) collation registry, negate-condition, "
                       "anyof/allof mapping and defaults; (A4) guard analysis of the nresults limit and the per-response counter; "
                       "(A5) address-data is resource.get_body(). Not decidable here: apply_prop_filter matches against str(prop_el) "
                       "of a vobject content line (needs third-party types) - documented in DESIGN.md, not reported by the check.",
        "trusted_base": ["bytes.upper() folds ASCII letters only", "vobject parses the stored card"],
        "not_decided": ["value extraction from vobject objects (str(prop_el))", "collation behaviour on arbitrary text"],
    },
    "C17": {
        "explanation": "Branch-shape, guard-before-call and single-source rules for multiget: (M1) unresolved href -> Status 404 with "
                       "no property, resolved href -> get_properties_with_data(self.data_property, href, resource, ...); (M2) "
                       "supported_on is evaluated before get_value(_ext), its failure is a 404, the data properties compare the "
                       "resource's content type with their own kind and each reporter is bound to its own data property; (M3) data "
                       "without sub-elements and GET both come from get_body(); (M4) href outside the prefix -> None -> 404, and the "
                       "property table is copied per call.",
        "trusted_base": ["ElementTree parsing of the request body"],
        "not_decided": ["percent-encoded variants of hrefs", "duplicates (unmappable duplicates are answered twice)", "ETag currency beyond C02"],
    },
    "C18": {
        "explanation": "Single-source, guarded-creation, reachability and table-totality rules for service discovery: (S1) the "
                       "directories created for a principal derive from the same getters the advertised home-set / inbox properties "
                       "read; (S2) every creation reachable from main / run_simple_server / the wsgi module tolerates 'already exists'; "
                       "(S3) call-graph reachability - no start-up path reaches rmtree/unlink/destroy/delete (count 0, DELETE handler as "
                       "positive control); (S4) get_resource's type table is total over VALID_STORE_TYPES and maps to classes with the "
                       "matching resource type, defaults are typed correctly; (S5) well-known paths and redirects. The concrete hrefs "
                       "for a given route prefix are runtime values and are not decided.",
        "trusted_base": ["os.mkdir raises FileExistsError for an existing directory", "aiohttp router / HTTPFound"],
        "not_decided": ["hrefs actually produced for a given prefix / principal path", "front-end equivalence"],
    },
    "C02": {
        "explanation": "Who-may-call and def-use rules (modulo hash collisions): (E1) ETags are quoted only by create_strong_etag, whose "
                       "argument is ObjectResource.etag, the etag component store.import_one returned, or store.get_ctag(); (E2) every "
                       "ETag header and the getetag property take the value from get_etag() / the write's return value / render()'s "
                       "etag slot, and the report generators have no other etag path; (E3) the git stores return the id of the blob "
                       "built from the bytes they store and reference, the vdir store hashes every chunk of the file and nothing else; "
                       "(E4) the body is fetched by that etag (content addressing).",
        "trusted_base": ["git blob ids / md5 are collision free for the purposes of the property", "dulwich object_store[sha] returns that object"],
        "not_decided": ["vdir re-reads the file on GET (read/ETag race)", "that nothing else changes the ETag beyond E3's dependence argument"],
    },
    "C07": {
        "explanation": "Def-use, exception-flow and yield-shape rules for sync-collection: (T1) the token returned is the single value "
                       "of resource.get_sync_token() taken before the enumeration and passed to iter_differences_since; (T2) an unknown "
                       "token can only end in 412: object-store miss -> InvalidCTag -> sync.InvalidToken -> valid-sync-token -> 412, each "
                       "iteration inside the translating try, the empty tree only for token None; (T3) iter_changes yields changed, new "
                       "and removed members and the report renders 404 / propstat accordingly; (T4) token = store.get_ctag(). That the "
                       "diff of two trees equals the set of changes between two history points follows from content addressing and is "
                       "not separately decided.",
        "trusted_base": ["dulwich object_store[sha] raises KeyError for an unknown id", "git tree ids are content addresses"],
        "not_decided": ["reports with DAV:limit (excluded by the property)", "a token that names an existing non-tree object"],
    },
    "C08": {
        "explanation": "Provenance of the collection tag: (G1) sync-token, both getctag properties and the collection ETag read "
                       "store.get_ctag(); (G2) that value is the id of the tree of the current membership (tree of the object the "
                       "store's ref points at / Index.commit of a freshly opened index) with no clock, counter or commit-id ingredient, "
                       "so by content addressing equal contents give equal tags and different contents different tags; (G3) no read "
                       "method of a git store reaches a ref/index/working-tree mutation (refused requests: C01/O1-O2).",
        "trusted_base": ["git tree ids are content addresses (no collisions)", "Index.commit writes the tree of the index entries"],
        "not_decided": ["vdir has no ctag (NotImplementedError) - outside the claim"],
    },
    "C11": {
        "explanation": "(D1) dispatch exhaustiveness: for every child element the RFC 4791 s.9.7 grammar allows in filter / comp-filter / "
                       "prop-filter / param-filter, a branch-sensitive walk of the parser's loop body must reach the builder effect and "
                       "not the trailing raise; (D2) builder protocol: the class of the builder object is propagated through parse_* and "
                       "every attribute used on it must exist with a compatible signature; (R1) the s.9.9 tables: each "
                       "apply_time_range_* function's AST is interpreted over symbolic terms and compared with the encoded table row on "
                       "ALL weak orderings of the terms and all presence / DATE-vs-DATE-TIME / DURATION-sign combinations (exhaustive, "
                       "because the functions use their inputs only through comparisons); (R2) reads-set of the time-range path vs the "
                       "recurrence properties; (M1) text-match operator vs s.9.7.5; (Q1) calendar-data is get_body(). R2 and M1 are "
                       "violated on the pinned tree (known findings).",
        "trusted_base": ["the RFC 4791 s.9.7 / s.9.9 tables as encoded in xstatic/rules/c11.py (DESIGN.md Appendix B)",
                         "tzify is monotone (time-zone conversion preserves order)"],
        "not_decided": ["TZID / floating / DATE conversion inside tzify", "collation behaviour on arbitrary text", "prop-filter time-range on PERIOD values"],
        "technique": "static analysis: dispatch walk + abstract interpretation of comparison-only functions over all weak orderings",
    },
    "C16": {
        "explanation": "(D1) finite dispatch: traverse_resource walked branch-sensitively for depth in {0,1,infinity}; (D2) collection "
                       "hrefs pass ensure_trailing_slash before the yield and child hrefs are joined onto them; (Q1) who-may-create: "
                       "{DAV:}href elements are created only in create_href, which quotes once, read_href_element unquotes once; (Q2) "
                       "encoding-state provenance {DECODED, QUOTED, URL, LATIN1}: no value reaching create_href / Status(href) is a URL "
                       "with a scheme, already quoted, or an undecoded PEP 3333 string; (Q3) the POST Location header is QUOTED in all "
                       "its parts; (F1) what WSGIRequest exposes for addressing resources passes through the UTF-8 re-decoding. The "
                       "round-trip of an individual name through urljoin/quote/unquote is runtime string behaviour and is not decided.",
        "trusted_base": ["urllib.parse.quote/unquote are inverse on paths", "aiohttp delivers request.path / match_info decoded"],
        "not_decided": ["urljoin+quote/unquote round-trip for every member name (e.g. names that look like a scheme)", "route prefixes", "each member listed once"],
        "technique": "static analysis: dispatch walk + encoding-state provenance + who-may-create",
    },
}


def full_explanation(pid: str) -> str:
    """The hand-written explanation, completed with the description of every registered rule it does not mention."""
    import re
    from . import core
    base = META.get(pid, {}).get("explanation", "")
    extra = []
    for r in core.RULES.get(pid, []):
        if not re.search(r"(?<![A-Za-z0-9])%s(?![0-9])" % re.escape(r.rid), base):
            extra.append("(%s) %s" % (r.rid, r.desc))
    if extra:
        base += " Further rules: " + "; ".join(extra) + "."
    return base
