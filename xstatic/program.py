"""Loader, class table, constant folding and call resolution.

The *program* is every ``xandikos/**/*.py`` file of the repository under
analysis except the test-suite.  All lookups are by qualified name, never by
line number.
"""

from __future__ import annotations

import ast
import os
from typing import Dict, Iterable, List, Optional, Set, Tuple

PKG = "xandikos"


class AnalysisError(Exception):
    """An anchor is missing or written in a form the analyser does not model.

    Mapped to exit status 2 (ANALYSIS-ERROR), never to a VIOLATION.
    """


class NotConst(Exception):
    pass


def dotted(expr: ast.AST) -> Optional[str]:
    """``a.b.c`` -> "a.b.c"; anything else -> None."""
    parts: List[str] = []
    while isinstance(expr, ast.Attribute):
        parts.append(expr.attr)
        expr = expr.value
    if isinstance(expr, ast.Name):
        parts.append(expr.id)
        return ".".join(reversed(parts))
    if (
        isinstance(expr, ast.Call)
        and isinstance(expr.func, ast.Name)
        and expr.func.id == "super"
        and parts
    ):
        parts.append("super()")
        return ".".join(reversed(parts))
    return None


def src(node: ast.AST) -> str:
    try:
        return ast.unparse(node)
    except Exception:  # pragma: no cover
        return "<%s>" % type(node).__name__


class FuncInfo:
    def __init__(self, qualname, node, module, cls=None, parent=None):
        self.qualname: str = qualname
        self.node = node
        self.name: str = node.name
        self.module: "ModuleInfo" = module
        self.cls: Optional["ClassInfo"] = cls
        self.parent: Optional["FuncInfo"] = parent
        self.is_async = isinstance(node, ast.AsyncFunctionDef)
        self.decorators = [dotted(d if not isinstance(d, ast.Call) else d.func) or src(d)
                           for d in node.decorator_list]
        self.locals: Dict[str, "FuncInfo"] = {}
        self.local_classes: Dict[str, "ClassInfo"] = {}

    @property
    def params(self) -> List[str]:
        a = self.node.args
        return [x.arg for x in a.posonlyargs + a.args + a.kwonlyargs]

    @property
    def short(self) -> str:
        return self.qualname[len(PKG) + 1:] if self.qualname.startswith(PKG + ".") else self.qualname

    @property
    def where(self) -> str:
        return "%s:%d" % (self.module.rel, self.node.lineno)

    def is_generator(self) -> bool:
        for n in walk_local(self.node):
            if isinstance(n, (ast.Yield, ast.YieldFrom)):
                return True
        return False

    def __repr__(self):
        return "<func %s>" % self.qualname


class ClassInfo:
    def __init__(self, qualname, node, module, parent_func=None):
        self.qualname: str = qualname
        self.node = node
        self.name: str = node.name
        self.module: "ModuleInfo" = module
        self.parent_func = parent_func
        self.methods: Dict[str, FuncInfo] = {}
        self.attrs: Dict[str, ast.AST] = {}
        self.bases: List[object] = []  # ClassInfo or str (external)
        self.mro: List["ClassInfo"] = []
        self.subclasses: List["ClassInfo"] = []  # direct

    @property
    def short(self) -> str:
        return self.qualname[len(PKG) + 1:]

    def all_subclasses(self) -> List["ClassInfo"]:
        out, todo, seen = [], list(self.subclasses), set()
        while todo:
            c = todo.pop()
            if c.qualname in seen:
                continue
            seen.add(c.qualname)
            out.append(c)
            todo.extend(c.subclasses)
        return out

    def is_subclass_of(self, other: "ClassInfo") -> bool:
        return other in self.mro

    def external_bases(self) -> List[str]:
        out = []
        for c in self.mro:
            out.extend(b for b in c.bases if isinstance(b, str))
        return out

    def __repr__(self):
        return "<class %s>" % self.qualname


class ModuleInfo:
    def __init__(self, name, path, rel, tree, source):
        self.name: str = name
        self.path = path
        self.rel = rel
        self.tree = tree
        self.source = source
        self.aliases: Dict[str, str] = {}
        self.const_exprs: Dict[str, ast.AST] = {}
        self.functions: Dict[str, FuncInfo] = {}
        self.classes: Dict[str, ClassInfo] = {}
        self.is_package = os.path.basename(path) == "__init__.py"

    def __repr__(self):
        return "<module %s>" % self.name


class _MatchDesugar(ast.NodeTransformer):
    """`match` statements over literal patterns are if/elif chains: they are rewritten when a module is loaded, so
    that every analysis (CFG, syntactic walks, the small interpreters) sees the one form.

    Supported: value patterns (`case "x"`, `case NS.CONST`), `None/True/False`, or-patterns of those, the wildcard,
    a bare capture name, guards.  The subject is evaluated once (bound to a temporary unless it is a plain name or
    attribute chain).  Any other pattern (class, sequence, mapping) is left in place and stays an unmodelled
    statement for the CFG builder."""

    _n = 0

    def visit_With(self, node: ast.With):
        """`with contextlib.suppress(A, B): body` is `try: body / except (A, B): pass`."""
        self.generic_visit(node)
        for i, it in enumerate(node.items):
            c = it.context_expr
            if isinstance(c, ast.Call) and (dotted(c.func) or "") in ("contextlib.suppress", "suppress") and it.optional_vars is None \
                    and c.args and not c.keywords and not any(isinstance(a, ast.Starred) for a in c.args):
                inner = node.body if i == len(node.items) - 1 else [ast.copy_location(ast.With(items=node.items[i + 1:], body=node.body), node)]
                typ = c.args[0] if len(c.args) == 1 else ast.Tuple(elts=list(c.args), ctx=ast.Load())
                tr = ast.Try(body=inner, handlers=[ast.ExceptHandler(type=typ, name=None, body=[ast.Pass()])], orelse=[], finalbody=[])
                ast.copy_location(tr, node)
                ast.copy_location(tr.handlers[0], node)
                ast.copy_location(tr.handlers[0].body[0], node)
                ast.fix_missing_locations(tr)
                if i == 0:
                    return tr
                out = ast.copy_location(ast.With(items=node.items[:i], body=[tr]), node)
                return out
        return node

    def visit_Match(self, node: "ast.Match"):
        self.generic_visit(node)
        subj = node.subject
        pre: List[ast.stmt] = []
        pure = isinstance(subj, ast.Name) or (isinstance(subj, ast.Attribute) and dotted(subj) is not None)
        if not pure:
            _MatchDesugar._n += 1
            tmp = "__match_%d" % _MatchDesugar._n
            pre.append(ast.copy_location(ast.Assign(targets=[ast.Name(id=tmp, ctx=ast.Store())], value=subj, lineno=node.lineno), node))
            subj = ast.Name(id=tmp, ctx=ast.Load())

        def test_of(pat):
            """(test expression | None for irrefutable, [binding statements]) or raises ValueError."""
            if isinstance(pat, ast.MatchValue):
                return ast.Compare(left=subj, ops=[ast.Eq()], comparators=[pat.value]), []
            if isinstance(pat, ast.MatchSingleton):
                return ast.Compare(left=subj, ops=[ast.Is()], comparators=[ast.Constant(value=pat.value)]), []
            if isinstance(pat, ast.MatchOr):
                vals = []
                for q in pat.patterns:
                    if isinstance(q, ast.MatchValue):
                        vals.append(q.value)
                    else:
                        t_, b_ = test_of(q)
                        if t_ is None or b_:
                            raise ValueError
                        vals = None
                        break
                if vals is not None:
                    return ast.Compare(left=subj, ops=[ast.In()], comparators=[ast.Tuple(elts=vals, ctx=ast.Load())]), []
                return ast.BoolOp(op=ast.Or(), values=[test_of(q)[0] for q in pat.patterns]), []
            if isinstance(pat, ast.MatchAs):
                if pat.pattern is None:
                    if pat.name is None:
                        return None, []
                    return None, [ast.Assign(targets=[ast.Name(id=pat.name, ctx=ast.Store())], value=subj, lineno=node.lineno)]
                t_, b_ = test_of(pat.pattern)
                if pat.name is not None:
                    b_ = b_ + [ast.Assign(targets=[ast.Name(id=pat.name, ctx=ast.Store())], value=subj, lineno=node.lineno)]
                return t_, b_
            raise ValueError

        try:
            arms = []
            for c in node.cases:
                t, binds = test_of(c.pattern)
                if c.guard is not None:
                    if binds:
                        raise ValueError      # a guard that reads the captured name: binding order matters
                    t = c.guard if t is None else ast.BoolOp(op=ast.And(), values=[t, c.guard])
                arms.append((t, binds + list(c.body)))
        except ValueError:
            return node
        chain: List[ast.stmt] = []
        for t, body in reversed(arms):
            if t is None:
                chain = body
            else:
                chain = [ast.If(test=t, body=body, orelse=chain)]
        out = pre + (chain or [ast.Pass()])
        for st in out:
            ast.copy_location(st, node)
            ast.fix_missing_locations(st)
        return out


def walk_local(fnode: ast.AST) -> Iterable[ast.AST]:
    """Walk a function body without descending into nested defs/lambdas/classes."""
    todo = list(ast.iter_child_nodes(fnode))
    while todo:
        n = todo.pop()
        yield n
        if isinstance(n, (ast.FunctionDef, ast.AsyncFunctionDef, ast.ClassDef, ast.Lambda)):
            continue
        todo.extend(ast.iter_child_nodes(n))


def walk_expr_calls(node: ast.AST) -> List[ast.Call]:
    """All Call nodes under *node*, not descending into nested defs / lambdas."""
    out = []
    todo = [node]
    while todo:
        n = todo.pop()
        if isinstance(n, ast.Call):
            out.append(n)
        if isinstance(n, (ast.FunctionDef, ast.AsyncFunctionDef, ast.ClassDef, ast.Lambda)) and n is not node:
            continue
        todo.extend(ast.iter_child_nodes(n))
    return out


# Receivers that are known to be objects of third-party / stdlib types even
# though one of their method names coincides with a project method name.  Each
# entry was confirmed by reading the assignment that gives the name its value.
EXTERNAL_RECEIVERS = {
    "self.repo", "self._repo", "repo",          # dulwich Repo
    "self.repo.object_store", "self.repo.refs",
    "config",                                   # dulwich ConfigFile (store/git.py)
    "cp", "self._configparser",                 # configparser.ConfigParser
    "index",                                    # dulwich Index (locked_index target)
    "tree", "blob", "b", "t",                   # dulwich objects
    "el", "et", "subel", "ret", "requested", "prop_el", "tag", "body",  # ElementTree
    "f", "md5", "h",                            # file objects / hashes
    "os", "os.path", "posixpath", "shutil", "logging", "urllib.parse", "ET",
    "self.addressbook", "ab",                   # vobject
    "cal", "c", "comp", "incomp", "outcomp", "incal", "outcal", "component",  # icalendar
    "loop", "chain", "app.router", "parser", "web", "self._stream",
    "self._file",                               # dulwich GitFile in locked_index
    "rs", "template", "jinja_env", "MIMETYPES", "group", "server", "bus",
    "request", "request.headers", "request.content", "environ", "self._environ",
    "response",
}

# (class-qualname-suffix or "*", dotted receiver) -> project class the receiver
# denotes.  Confirmed on every run by `Program.confirm_receiver_table`.
RECEIVER_TABLE = {
    "self.store": "xandikos.store.Store",
    "resource.store": "xandikos.store.Store",
    "p.store": "xandikos.store.Store",
    "self.backend": "xandikos.web.XandikosBackend",
    "app.backend": "xandikos.web.XandikosBackend",
    "backend": "xandikos.web.XandikosBackend",
    "self.index": "xandikos.store.index.MemoryIndex",
    "self.index_manager": "xandikos.store.index.AutoIndexManager",
    "self.config": "xandikos.store.config.CollectionMetadata",
    "self.store.config": "xandikos.store.config.CollectionMetadata",
    "app": "xandikos.webdav.WebDAVApp",
    "main_app": "xandikos.web.XandikosApp",
}


class CallRes:
    __slots__ = ("targets", "external", "how")

    def __init__(self, targets=None, external=None, how=""):
        self.targets: List[FuncInfo] = targets or []
        self.external: Optional[str] = external
        self.how = how

    def __repr__(self):
        return "<CallRes %s %s ext=%s>" % (self.how, [t.short for t in self.targets], self.external)


class Program:
    def __init__(self, root: str):
        self.root = os.path.abspath(root)
        self.modules: Dict[str, ModuleInfo] = {}
        self.functions: Dict[str, FuncInfo] = {}
        self.classes: Dict[str, ClassInfo] = {}
        self.methods_by_name: Dict[str, List[FuncInfo]] = {}
        self._load()
        self._link_classes()
        self._rehome_moved()
        self.stats = {"calls_resolved": 0, "calls_external": 0, "calls_unresolved": 0}

    # ------------------------------------------------------------------ load
    def _load(self):
        pkgdir = os.path.join(self.root, PKG)
        if not os.path.isdir(pkgdir):
            raise AnalysisError("package directory %s not found" % pkgdir)
        for dirpath, dirnames, filenames in os.walk(pkgdir):
            dirnames[:] = sorted(d for d in dirnames if d not in ("tests", "__pycache__", "templates"))
            for fn in sorted(filenames):
                if not fn.endswith(".py"):
                    continue
                path = os.path.join(dirpath, fn)
                rel = os.path.relpath(path, self.root)
                modname = rel[:-3].replace(os.sep, ".")
                if modname.endswith(".__init__"):
                    modname = modname[: -len(".__init__")]
                with open(path, encoding="utf-8") as f:
                    source = f.read()
                try:
                    tree = ast.parse(source, filename=rel)
                except SyntaxError as e:
                    raise AnalysisError("cannot parse %s: %s" % (rel, e))
                tree = _MatchDesugar().visit(tree)
                mod = ModuleInfo(modname, path, rel, tree, source)
                self.modules[modname] = mod
        self._undo_method_renames()
        for mod in self.modules.values():
            self._index_module(mod)

    def _undo_method_renames(self):
        """A method that was renamed consistently across a class hierarchy (`_import_one` -> `_write_one` in the base
        class, every subclass and every caller) is the same program up to the spelling of one identifier.  When the
        classes that defined method *m* in the reference tree now all lack it, the same set of classes defines a method
        *n* unknown to the reference tree, and the identifier *m* is not used anywhere in the package any more, the
        identifier *n* is spelled *m* again in the loaded syntax trees (definitions, attribute uses, keyword-free).
        Every rule then sees - and checks - the renamed code under the name it knows."""
        try:
            from .inline import _REF_PATH
            import json as _json
            with open(_REF_PATH) as f:
                d = _json.load(f)
            ref_funcs, ref_classes = set(d.get("functions", [])), set(d.get("classes", []))
        except (OSError, ValueError):
            return
        now: Dict[str, Set[str]] = {}        # class qualname -> method names (top-level classes)
        for mn, mod in self.modules.items():
            for st in mod.tree.body:
                if isinstance(st, ast.ClassDef):
                    now["%s.%s" % (mn, st.name)] = {x.name for x in st.body if isinstance(x, (ast.FunctionDef, ast.AsyncFunctionDef))}
        missing: Dict[str, Set[str]] = {}
        new: Dict[str, Set[str]] = {}
        for cq, names in now.items():
            if cq not in ref_classes:
                continue
            ref_names = {q[len(cq) + 1:] for q in ref_funcs if q.startswith(cq + ".") and "." not in q[len(cq) + 1:]}
            for m in ref_names - names:
                missing.setdefault(m, set()).add(cq)
            for n in names - ref_names:
                new.setdefault(n, set()).add(cq)
        if not missing or not new:
            return
        used: Set[str] = set()
        for mod in self.modules.values():
            for x in ast.walk(mod.tree):
                if isinstance(x, ast.Attribute):
                    used.add(x.attr)
                elif isinstance(x, ast.Name):
                    used.add(x.id)
                elif isinstance(x, (ast.FunctionDef, ast.AsyncFunctionDef)):
                    used.add(x.name)
        pairs = {}
        for m, cs in missing.items():
            if m in used or m.startswith("__"):
                continue
            cands = [n for n, cs2 in new.items() if cs2 == cs and not n.startswith("__")]
            if len(cands) == 1 and sum(1 for m2, c2 in missing.items() if c2 == cs and m2 not in used) == 1:
                pairs[cands[0]] = m
        if not pairs:
            return
        self.renamed_methods = dict(pairs)
        for mod in self.modules.values():
            for x in ast.walk(mod.tree):
                if isinstance(x, ast.Attribute) and x.attr in pairs:
                    x.attr = pairs[x.attr]
                elif isinstance(x, (ast.FunctionDef, ast.AsyncFunctionDef)) and x.name in pairs:
                    x.name = pairs[x.name]

    def _rehome_moved(self):
        """A function or class that the reference tree defines as ``old.module.Name`` and that now lives in another
        module, still importable under the old name (``from .errors import LockedError`` in the old module), keeps its
        reference identity: it is registered - and named in every obligation - as ``old.module.Name``.  Code moves
        between modules are then invisible to the rules; names inside the body are still resolved in the module that
        really holds it."""
        try:
            from .inline import _REF_PATH
            import json as _json
            with open(_REF_PATH) as f:
                d = _json.load(f)
            ref_funcs, ref_classes = set(d.get("functions", [])), set(d.get("classes", []))
        except (OSError, ValueError):
            return
        ref_all = ref_funcs | ref_classes

        def rename_func(fi, new_q):
            old_q = fi.qualname
            for q in [q for q in list(self.functions) if q == old_q or q.startswith(old_q + ".")]:
                g = self.functions.pop(q)
                if g.qualname == q:
                    g.qualname = new_q + q[len(old_q):]
                    for mn in sorted(self.modules, key=len, reverse=True):
                        if g.qualname.startswith(mn + "."):
                            g.home_module = mn     # the module the reference tree has it in
                            break
                self.functions[g.qualname] = g

        for q in sorted(ref_classes):
            if q in self.classes:
                continue
            try:
                kind, obj = self._resolve_abs(q)
            except Exception:
                continue
            if kind == "class" and obj.qualname != q and obj.qualname not in ref_all and obj.name == q.rsplit(".", 1)[-1]:
                old = obj.qualname
                obj.qualname = q
                self.classes.pop(old, None)
                self.classes[q] = obj
                for m in obj.methods.values():
                    if m.qualname.startswith(old + "."):
                        rename_func(m, q + m.qualname[len(old):])
        for q in sorted(ref_funcs):
            if q in self.functions or q.endswith(".<module>"):
                continue
            try:
                kind, obj = self._resolve_abs(q)
            except Exception:
                continue
            if kind == "const" and isinstance(obj, (ast.Name, ast.Attribute)) and dotted(obj):
                # `parse_filter = CalendarFilterParser.parse_filter`: a module-level function turned into a static method,
                # the old name rebound to it
                mn = q.rsplit(".", 1)[0]
                if mn in self.modules:
                    try:
                        kind, obj = self.resolve_dotted(self.modules[mn], dotted(obj))
                    except Exception:
                        continue
                    if not (kind == "func" and obj.cls is not None and "staticmethod" in obj.decorators):
                        continue
                    if obj.qualname != q and obj.qualname not in ref_all and obj.name == q.rsplit(".", 1)[-1]:
                        rename_func(obj, q)
                continue
            if kind == "func" and obj.qualname != q and obj.qualname not in ref_all and obj.name == q.rsplit(".", 1)[-1] \
                    and obj.parent is None and (obj.cls is None or "staticmethod" in obj.decorators):
                rename_func(obj, q)

    def _index_module(self, mod: ModuleInfo):
        def handle_imports(stmts):
            for st in stmts:
                if isinstance(st, ast.Import):
                    for a in st.names:
                        if a.asname:
                            mod.aliases[a.asname] = a.name
                        else:
                            mod.aliases[a.name.split(".")[0]] = a.name.split(".")[0]
                elif isinstance(st, ast.ImportFrom):
                    base = self._abs_module(mod, st.module, st.level)
                    for a in st.names:
                        mod.aliases[a.asname or a.name] = (base + "." + a.name) if base else a.name
                elif isinstance(st, ast.Try):
                    handle_imports(st.body)
                    for h in st.handlers:
                        handle_imports(h.body)
                    handle_imports(st.orelse)
                elif isinstance(st, ast.If):
                    handle_imports(st.body)
                    handle_imports(st.orelse)

        handle_imports(mod.tree.body)

        def index_body(stmts, prefix, cls, parent_func, top):
            for st in stmts:
                if isinstance(st, (ast.FunctionDef, ast.AsyncFunctionDef)):
                    q = prefix + "." + st.name
                    fi = FuncInfo(q, st, mod, cls=cls, parent=parent_func)
                    # keep the first definition under a name (try/except ImportError fallbacks)
                    if q not in self.functions:
                        self.functions[q] = fi
                        if cls is not None:
                            cls.methods.setdefault(st.name, fi)
                        elif parent_func is not None:
                            parent_func.locals.setdefault(st.name, fi)
                        elif top:
                            mod.functions.setdefault(st.name, fi)
                    else:
                        fi = self.functions[q]
                    index_body(st.body, q + ".<locals>", None, fi, False)
                elif isinstance(st, ast.ClassDef):
                    q = prefix + "." + st.name
                    ci = ClassInfo(q, st, mod, parent_func=parent_func)
                    self.classes[q] = ci
                    if parent_func is not None:
                        parent_func.local_classes[st.name] = ci
                    elif top:
                        mod.classes[st.name] = ci
                    for b in st.body:
                        if isinstance(b, ast.Assign) and len(b.targets) == 1 and isinstance(b.targets[0], ast.Name):
                            ci.attrs[b.targets[0].id] = b.value
                        elif isinstance(b, ast.AnnAssign) and isinstance(b.target, ast.Name) and b.value is not None:
                            ci.attrs[b.target.id] = b.value
                    index_body(st.body, q, ci, None, False)
                elif isinstance(st, (ast.If, ast.Try)) and (top or parent_func is None and cls is None):
                    index_body(st.body, prefix, cls, parent_func, top)
                    for h in getattr(st, "handlers", []):
                        index_body(h.body, prefix, cls, parent_func, top)
                    index_body(st.orelse, prefix, cls, parent_func, top)
                elif parent_func is not None and cls is None:
                    # nested defs inside compound statements of a function
                    for fld in ("body", "orelse", "finalbody"):
                        sub = getattr(st, fld, None)
                        if isinstance(sub, list) and sub and isinstance(sub[0], ast.stmt):
                            index_body(sub, prefix, None, parent_func, False)
                    for h in getattr(st, "handlers", []):
                        index_body(h.body, prefix, None, parent_func, False)
                if top and isinstance(st, ast.Assign) and len(st.targets) == 1 and isinstance(st.targets[0], ast.Name):
                    nm = st.targets[0].id
                    mod.const_exprs[nm] = st.value
                elif top and isinstance(st, ast.AnnAssign) and isinstance(st.target, ast.Name) and st.value is not None:
                    mod.const_exprs[st.target.id] = st.value

        index_body(mod.tree.body, mod.name, None, None, True)
        # the module body as a pseudo-function "<module>" (start-up code, module-level call sites)
        pseudo = ast.FunctionDef(
            name="<module>",
            args=ast.arguments(posonlyargs=[], args=[], kwonlyargs=[], kw_defaults=[], defaults=[]),
            body=list(mod.tree.body) or [ast.Pass(lineno=1, col_offset=0)],
            decorator_list=[], lineno=1, col_offset=0)
        mf = FuncInfo(mod.name + ".<module>", pseudo, mod)
        self.functions[mf.qualname] = mf
        mod.module_func = mf

    def _abs_module(self, mod: ModuleInfo, name: Optional[str], level: int) -> str:
        if level == 0:
            return name or ""
        parts = mod.name.split(".")
        if not mod.is_package:
            parts = parts[:-1]
        if level > 1:
            parts = parts[: len(parts) - (level - 1)]
        base = ".".join(parts)
        if name:
            base = base + "." + name if base else name
        return base

    def _link_classes(self):
        for ci in self.classes.values():
            for b in ci.node.bases:
                d = dotted(b)
                tgt = None
                if d is not None:
                    kind, obj = self.resolve_dotted(ci.module, d, ci.parent_func)
                    if kind == "class":
                        tgt = obj
                ci.bases.append(tgt if tgt is not None else (d or src(b)))
        for ci in self.classes.values():
            for b in ci.bases:
                if isinstance(b, ClassInfo):
                    b.subclasses.append(ci)
        for ci in self.classes.values():
            ci.mro = self._c3(ci)
        for fi in self.functions.values():
            if fi.cls is not None:
                self.methods_by_name.setdefault(fi.name, []).append(fi)

    def _c3(self, ci: ClassInfo, _stack=()) -> List[ClassInfo]:
        if ci in _stack:
            raise AnalysisError("cyclic class hierarchy at %s" % ci.qualname)
        pbases = [b for b in ci.bases if isinstance(b, ClassInfo)]
        seqs = [self._c3(b, _stack + (ci,)) for b in pbases] + [list(pbases)]
        res = [ci]
        seqs = [list(s) for s in seqs if s]
        while seqs:
            for s in seqs:
                cand = s[0]
                if not any(cand in t[1:] for t in seqs):
                    break
            else:
                raise AnalysisError("inconsistent MRO for %s" % ci.qualname)
            res.append(cand)
            for s in seqs:
                if s and s[0] is cand:
                    del s[0]
            seqs = [s for s in seqs if s]
        return res

    # --------------------------------------------------------------- lookups
    def module(self, name: str) -> ModuleInfo:
        m = self.modules.get(name)
        if m is None:
            raise AnalysisError("module %s not found" % name)
        return m

    def cls(self, qualname: str) -> ClassInfo:
        c = self.classes.get(qualname)
        if c is None:
            raise AnalysisError("class %s not found" % qualname)
        return c

    def func(self, qualname: str) -> FuncInfo:
        f = self.functions.get(qualname)
        if f is None:
            # moved to another module and re-imported under the old name (`from .vcard import apply_text_match`)
            kind, obj = self._resolve_abs(qualname)
            if kind == "func":
                return obj
            raise AnalysisError("function %s not found" % qualname)
        return f

    def has_func(self, qualname: str) -> bool:
        return qualname in self.functions

    def lookup_method(self, ci: ClassInfo, name: str, after: Optional[ClassInfo] = None) -> Optional[FuncInfo]:
        mro = ci.mro
        if after is not None:
            mro = mro[mro.index(after) + 1:] if after in mro else []
        for c in mro:
            if name in c.methods:
                return c.methods[name]
        return None

    def method(self, cls_q: str, name: str) -> FuncInfo:
        """The function that ``cls_q().name`` resolves to (through the MRO)."""
        f = self.lookup_method(self.cls(cls_q), name)
        if f is None:
            raise AnalysisError("method %s.%s not found" % (cls_q, name))
        return f

    def own_method(self, cls_q: str, name: str) -> FuncInfo:
        f = self.cls(cls_q).methods.get(name)
        if f is None:
            # pulled up into a base class (de-duplication of sibling implementations): the inherited
            # definition is what instances of cls_q run.  It is analysed with cls_q as the class of `self`
            # (hooks it calls on self dispatch to cls_q's overrides).
            base = self.lookup_method(self.cls(cls_q), name)
            if base is not None:
                key = "%s.%s@inherited" % (cls_q, name)
                cache = self.__dict__.setdefault("_inherited", {})
                f = cache.get(key)
                if f is None:
                    import copy as _copy
                    f = _copy.copy(base)
                    f.cls = self.cls(cls_q)
                    f.qualname = key
                    f.inherited_from = base
                    cache[key] = f
        if f is None:
            raise AnalysisError("method %s.%s not defined in class body" % (cls_q, name))
        return f

    def dispatch_targets(self, ci: ClassInfo, name: str) -> List[FuncInfo]:
        """All functions ``x.name`` can denote when x is an instance of *ci* or a subclass."""
        out: List[FuncInfo] = []
        base = self.lookup_method(ci, name)
        if base is not None:
            out.append(base)
        for sc in ci.all_subclasses():
            if name in sc.methods and sc.methods[name] not in out:
                out.append(sc.methods[name])
            else:
                m = self.lookup_method(sc, name)
                if m is not None and m not in out:
                    out.append(m)
        return out

    def resolve_dotted(self, mod: ModuleInfo, name: str, func: Optional[FuncInfo] = None,
                       _depth: int = 0) -> Tuple[str, object]:
        """Resolve a dotted name as seen from *mod* (and optionally from inside *func*).

        Returns (kind, obj) with kind in module|class|func|const|external|unknown.
        """
        if _depth > 8:
            return ("unknown", name)
        parts = name.split(".")
        head = parts[0]
        # local scopes
        f = func
        while f is not None:
            if head in f.locals and len(parts) == 1:
                return ("func", f.locals[head])
            if head in f.local_classes:
                return self._descend(("class", f.local_classes[head]), parts[1:])
            f = f.parent
        if head in mod.classes:
            return self._descend(("class", mod.classes[head]), parts[1:])
        if head in mod.functions:
            return self._descend(("func", mod.functions[head]), parts[1:])
        if head in mod.aliases:
            target = mod.aliases[head]
            return self._resolve_abs(".".join([target] + parts[1:]), _depth + 1)
        if head in mod.const_exprs:
            e = mod.const_exprs[head]
            d = dotted(e)
            if d is not None and d != name:
                return self.resolve_dotted(mod, ".".join([d] + parts[1:]), None, _depth + 1)
            if len(parts) == 1:
                return ("const", e)
        return ("unknown", name)

    def _resolve_abs(self, name: str, _depth: int = 0) -> Tuple[str, object]:
        parts = name.split(".")
        # longest module prefix
        for i in range(len(parts), 0, -1):
            mn = ".".join(parts[:i])
            if mn in self.modules:
                rest = parts[i:]
                if not rest:
                    return ("module", self.modules[mn])
                return self.resolve_dotted(self.modules[mn], ".".join(rest), None, _depth + 1)
        return ("external", name)

    def _descend(self, cur: Tuple[str, object], rest: List[str]) -> Tuple[str, object]:
        kind, obj = cur
        for p in rest:
            if kind == "class":
                m = self.lookup_method(obj, p)
                if m is not None:
                    kind, obj = "func", m
                    continue
                for c in obj.mro:
                    if p in c.attrs:
                        return ("const", c.attrs[p])
                return ("unknown", obj.qualname + "." + p)
            return ("unknown", p)
        return (kind, obj)

    # ------------------------------------------------------- constant folding
    def fold(self, mod: ModuleInfo, e: ast.AST, env: Optional[dict] = None, _depth: int = 0):
        """Evaluate a constant expression (str/bytes/int/tuple/list of those)."""
        if _depth > 12:
            raise NotConst(src(e))
        if isinstance(e, ast.Constant):
            return e.value
        if isinstance(e, ast.Name):
            if env and e.id in env:
                return env[e.id]
            kind, obj = self.resolve_dotted(mod, e.id)
            if kind == "const":
                m = mod
                # find the module that owns the expression
                m = self._owner_of(obj) or mod
                return self.fold(m, obj, None, _depth + 1)
            raise NotConst(e.id)
        if isinstance(e, ast.Attribute):
            d = dotted(e)
            if d is None:
                raise NotConst(src(e))
            kind, obj = self.resolve_dotted(mod, d)
            if kind == "const":
                m = self._owner_of(obj) or mod
                return self.fold(m, obj, None, _depth + 1)
            raise NotConst(d)
        if isinstance(e, ast.BinOp):
            l = self.fold(mod, e.left, env, _depth + 1)
            r = self.fold(mod, e.right, env, _depth + 1)
            try:
                if isinstance(e.op, ast.Add):
                    return l + r
                if isinstance(e.op, ast.Mod):
                    return l % r
            except Exception:
                raise NotConst(src(e))
            raise NotConst(src(e))
        if isinstance(e, ast.JoinedStr):
            out = ""
            for v in e.values:
                if isinstance(v, ast.Constant):
                    out += str(v.value)
                elif isinstance(v, ast.FormattedValue) and v.format_spec is None and v.conversion == -1:
                    out += str(self.fold(mod, v.value, env, _depth + 1))
                else:
                    raise NotConst(src(e))
            return out
        if isinstance(e, (ast.Tuple, ast.List, ast.Set)):
            vals = []
            for x in e.elts:
                if isinstance(x, ast.Starred):     # [*base, extra]
                    sub = self.fold(mod, x.value, env, _depth + 1)
                    if not isinstance(sub, (tuple, list, frozenset)):
                        raise NotConst(src(e))
                    vals.extend(sub)
                else:
                    vals.append(self.fold(mod, x, env, _depth + 1))
            return frozenset(vals) if isinstance(e, ast.Set) else tuple(vals)
        raise NotConst(src(e))

    def _owner_of(self, expr: ast.AST) -> Optional[ModuleInfo]:
        for m in self.modules.values():
            for v in m.const_exprs.values():
                if v is expr:
                    return m
        for c in self.classes.values():
            for v in c.attrs.values():
                if v is expr:
                    return c.module
        return None

    def try_fold(self, mod: ModuleInfo, e: ast.AST, env=None):
        try:
            return self.fold(mod, e, env)
        except NotConst:
            return None

    # --------------------------------------------------------- call resolution
    def memo_alias(self, owner: ClassInfo, name: str) -> Optional[str]:
        """``self.<name>`` is a memoising wrapper around a method of the same object, installed by the class's own
        code and nowhere rebound: ``self.<name> = functools.lru_cache(...)(self.<method>)`` (or ``functools.cache``).
        Such a call computes what the method computes; returns the method's name."""
        cache = self.__dict__.setdefault("_memo_alias", {})
        key = (owner.qualname, name)
        if key in cache:
            return cache[key]
        found = []
        for c in owner.mro:
            for m in c.methods.values():
                for n in walk_local(m.node):
                    if not isinstance(n, (ast.Assign, ast.AnnAssign)) or n.value is None:
                        continue
                    tg = n.targets if isinstance(n, ast.Assign) else [n.target]
                    if any(dotted(t_) == "self." + name for t_ in tg):
                        found.append(n.value)
        res = None
        if len(found) == 1:
            v = found[0]
            inner = None
            if isinstance(v, ast.Call) and len(v.args) == 1 and not v.keywords:
                f_ = v.func
                fd = dotted(f_)
                if fd in ("functools.cache", "functools.lru_cache", "cache", "lru_cache"):
                    inner = v.args[0]
                elif isinstance(f_, ast.Call) and dotted(f_.func) in ("functools.lru_cache", "lru_cache"):
                    inner = v.args[0]
            if inner is not None and isinstance(inner, ast.Attribute) and dotted(inner.value) == "self":
                m_ = self.lookup_method(owner, inner.attr)
                from .inline import returns_immutable
                if m_ is not None and returns_immutable(m_.node):
                    res = inner.attr        # results cannot be modified: the wrapper computes what the method computes
        cache[key] = res
        return res

    def resolve_call(self, fi: FuncInfo, call: ast.Call, local_types: Optional[dict] = None) -> CallRes:
        fn = call.func
        # asyncio.to_thread(f, ...) / to_thread(f, ...): call edge to f (worker thread)
        d = dotted(fn)
        if d in ("to_thread", "asyncio.to_thread") and call.args:
            inner = ast.Call(func=call.args[0], args=call.args[1:], keywords=call.keywords)
            r = self.resolve_call(fi, inner, local_types)
            r.how = "to_thread:" + r.how
            return r
        if d in ("functools.partial",) and call.args:
            inner = ast.Call(func=call.args[0], args=call.args[1:], keywords=call.keywords)
            r = self.resolve_call(fi, inner, local_types)
            r.how = "partial:" + r.how
            return r
        if isinstance(fn, ast.Name):
            kind, obj = self.resolve_dotted(fi.module, fn.id, fi)
            if kind == "func":
                return CallRes([obj], how="name")
            if kind == "class":
                init = self.lookup_method(obj, "__init__")
                return CallRes([init] if init else [], how="ctor:" + obj.qualname)
            if kind == "external":
                return CallRes(external=obj, how="external")
            if fn.id == "cls" and "classmethod" in fi.decorators and fi.cls is not None:
                out = []
                for c in [fi.cls] + fi.cls.all_subclasses():
                    init = self.lookup_method(c, "__init__")
                    if init is not None and init not in out:
                        out.append(init)
                return CallRes(out, how="ctor:cls")
            for n_ in walk_local(fi.node):
                if isinstance(n_, ast.Assign) and len(n_.targets) == 1 and isinstance(n_.targets[0], ast.Name) \
                        and n_.targets[0].id == fn.id and isinstance(n_.value, ast.Subscript) \
                        and self.dict_literal(fi, n_.value.value) is not None:
                    inner = ast.Call(func=n_.value, args=call.args, keywords=call.keywords)
                    r = self.resolve_call(fi, inner, local_types)
                    if r.targets:
                        return r
            if fn.id in fi.params or (local_types and fn.id in local_types):
                return CallRes(how="param-call")
            return CallRes(external=fn.id, how="builtin")
        if isinstance(fn, ast.Attribute):
            recv = fn.value
            rd = dotted(recv)
            name = fn.attr
            # super().m
            if isinstance(recv, ast.Call) and isinstance(recv.func, ast.Name) and recv.func.id == "super":
                owner = fi.cls or (fi.parent.cls if fi.parent else None)
                if owner is not None:
                    m = self.lookup_method(owner, name, after=owner)
                    # classmethods of subclasses use the subclass MRO; collect every
                    # possible "next" across the subclasses that inherit this method
                    out = [m] if m else []
                    for sc in owner.all_subclasses():
                        if self.lookup_method(sc, fi.name) is fi:
                            m2 = self.lookup_method(sc, name, after=owner)
                            if m2 is not None and m2 not in out:
                                out.append(m2)
                    return CallRes(out, how="super")
            if rd in ("self", "cls"):
                owner = fi.cls
                f = fi
                while owner is None and f.parent is not None:
                    f = f.parent
                    owner = f.cls
                if owner is not None:
                    t = self.dispatch_targets(owner, name)
                    if t:
                        return CallRes(t, how="self")
                    alias = self.memo_alias(owner, name)
                    if alias is not None:
                        t = self.dispatch_targets(owner, alias)
                        if t:
                            return CallRes(t, how="self")
                    return CallRes(how="self-unknown")
            if rd is not None:
                kind, obj = self.resolve_dotted(fi.module, rd, fi)
                if kind == "module":
                    k2, o2 = self.resolve_dotted(obj, name)
                    if k2 == "func":
                        return CallRes([o2], how="module")
                    if k2 == "class":
                        init = self.lookup_method(o2, "__init__")
                        return CallRes([init] if init else [], how="ctor:" + o2.qualname)
                    return CallRes(external=obj.name + "." + name, how="module-unknown")
                if kind == "class":
                    m = self.lookup_method(obj, name)
                    if m is not None:
                        # classmethod called on the class: subclasses may override
                        return CallRes(self.dispatch_targets(obj, name) if rd == "cls" else [m], how="class")
                if kind == "external":
                    return CallRes(external=str(obj) + "." + name, how="external")
                if local_types and rd in local_types:
                    ci = local_types[rd]
                    t = self.dispatch_targets(ci, name)
                    if t:
                        return CallRes(t, how="local-type")
                if rd in RECEIVER_TABLE and RECEIVER_TABLE[rd] in self.classes:
                    t = self.dispatch_targets(self.classes[RECEIVER_TABLE[rd]], name)
                    if t:
                        return CallRes(t, how="receiver-table")
                    return CallRes(external=rd + "." + name, how="receiver-table-miss")
                if rd in EXTERNAL_RECEIVERS or rd.split(".")[0] in ("os", "posixpath", "shutil", "logging", "urllib", "hashlib", "dulwich", "asyncio", "itertools", "functools", "socket", "systemd", "collections", "configparser", "uuid", "errno", "stat"):
                    return CallRes(external=rd + "." + name, how="external-receiver")
            # class hierarchy analysis by method name
            cands = self.methods_by_name.get(name, [])
            if cands:
                return CallRes(list(cands), how="cha")
            return CallRes(external=(rd or "?") + "." + name, how="unknown-attr")
        if isinstance(fn, ast.Subscript) and self.dict_literal(fi, fn.value) is not None:
            out = []
            for v in self.dict_literal(fi, fn.value).values:
                dv = dotted(v)
                if dv is None:
                    continue
                kind, obj = self.resolve_dotted(fi.module, dv, fi)
                if kind == "class":
                    init = self.lookup_method(obj, "__init__")
                    if init is not None and init not in out:
                        out.append(init)
                elif kind == "func" and obj not in out:
                    out.append(obj)
            if out:
                return CallRes(out, how="dict-dispatch")
        return CallRes(how="dynamic")

    def dict_literal(self, fi: FuncInfo, e: ast.AST) -> Optional[ast.Dict]:
        """The dict display *e* denotes: itself, or the module / class level constant it names (also behind a
        read-only or copying wrapper: ``MappingProxyType({...})``, ``dict({...})``, ``frozendict({...})``)."""
        def unwrap(v):
            while isinstance(v, ast.Call) and len(v.args) == 1 and not v.keywords \
                    and (dotted(v.func) or "").split(".")[-1] in ("MappingProxyType", "dict", "OrderedDict", "frozendict", "ChainMap"):
                v = v.args[0]
            return v if isinstance(v, ast.Dict) else None

        if unwrap(e) is not None:
            return unwrap(e)
        if isinstance(e, ast.Name):
            v = unwrap(fi.module.const_exprs.get(e.id))
            if v is not None:
                return v
        if isinstance(e, ast.Attribute) and isinstance(e.value, ast.Name):
            if e.value.id in ("self", "cls") and fi.cls is not None:
                for c in fi.cls.mro:
                    if e.attr in c.attrs:
                        return unwrap(c.attrs[e.attr])
            kind, obj = self.resolve_dotted(fi.module, e.value.id, fi)
            if kind == "class" and unwrap(obj.attrs.get(e.attr)) is not None:
                return unwrap(obj.attrs[e.attr])
            if kind == "module" and unwrap(obj.const_exprs.get(e.attr)) is not None:
                return unwrap(obj.const_exprs[e.attr])
        return None

    def dict_dispatch_classes(self, fi: FuncInfo, call: ast.Call) -> List[ClassInfo]:
        fn = call.func
        out = []
        if isinstance(fn, ast.Name):
            # cls_ = TABLE[key]; cls_(...)  - one local assignment
            for n in walk_local(fi.node):
                if isinstance(n, ast.Assign) and len(n.targets) == 1 and isinstance(n.targets[0], ast.Name) \
                        and n.targets[0].id == fn.id and isinstance(n.value, ast.Subscript):
                    fn = n.value
                    break
        if isinstance(fn, ast.Subscript) and self.dict_literal(fi, fn.value) is not None:
            for v in self.dict_literal(fi, fn.value).values:
                dv = dotted(v)
                if dv is None:
                    continue
                kind, obj = self.resolve_dotted(fi.module, dv, fi)
                if kind == "class":
                    out.append(obj)
        return out

    def confirm_receiver_table(self) -> List[str]:
        """Check the assignments that justify RECEIVER_TABLE still exist.  Returns notes."""
        notes = []
        checks = [
            ("xandikos.web.ObjectResource", "store"),
            ("xandikos.web.StoreBasedCollection", "store"),
            ("xandikos.web.StoreBasedCollection", "backend"),
            ("xandikos.webdav.WebDAVApp", "backend"),
            ("xandikos.store.Store", "index"),
            ("xandikos.store.Store", "index_manager"),
        ]
        for cq, attr in checks:
            ci = self.classes.get(cq)
            if ci is None:
                raise AnalysisError("receiver table: class %s vanished" % cq)
            init = ci.methods.get("__init__")
            ok = False
            if init is not None:
                for n in walk_local(init.node):
                    if isinstance(n, ast.Assign):
                        for t in n.targets:
                            if dotted(t) == "self." + attr:
                                ok = True
            if not ok:
                raise AnalysisError("receiver table: %s.__init__ no longer assigns self.%s" % (cq, attr))
            notes.append("%s.%s" % (cq, attr))
        return notes

    # ------------------------------------------------------------- utilities
    def funcs_in_module(self, modname: str) -> List[FuncInfo]:
        return [f for f in self.functions.values() if f.module.name == modname or getattr(f, "home_module", None) == modname]

    def all_funcs(self) -> List[FuncInfo]:
        return list(self.functions.values())
