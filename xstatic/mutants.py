"""Sensitivity corpus for the checker (thorough tier).

Each mutant is a small source edit of the tree under test that still compiles
and that the pinned suite does not notice; the named rule must fire on it
(with a *new* violated obligation, i.e. one not present on the unmutated tree).
Benign variants are behaviour-preserving edits on which every rule must stay
silent.  Edits are applied to a scratch copy of the package outside /repo and
/verif, which is removed immediately afterwards.  An edit whose anchor text is
not present in the tree under test is *skipped* and counted as such.

The result is evidence about the checker.  It can make a thorough run exit 2
(checker broken) but never produces a VIOLATION of the property.
"""

from __future__ import annotations

import ast
import os
import shutil
import tempfile
from concurrent.futures import ProcessPoolExecutor
from typing import Dict, List, Optional, Tuple


class M:
    def __init__(self, mid: str, expect: Dict[str, List[str]], file: str, edits: List[Tuple[str, str]], desc: str, benign: bool = False):
        self.mid = mid
        self.expect = expect          # property -> rule ids of which at least one must fire
        self.file = file
        self.edits = edits            # [(old, new)] exact text, each old must occur exactly once
        self.desc = desc
        self.benign = benign


G = "xandikos/store/git.py"
V = "xandikos/store/vdir.py"
W = "xandikos/web.py"
D = "xandikos/webdav.py"
IC = "xandikos/icalendar.py"
CD = "xandikos/caldav.py"
CR = "xandikos/carddav.py"
CO = "xandikos/collation.py"
CF = "xandikos/store/config.py"
ST = "xandikos/store/__init__.py"
IX = "xandikos/store/index.py"
SY = "xandikos/sync.py"
DC = "xandikos/davcommon.py"

MUTANTS: List[M] = [
    M("validate-after-write", {"C01": ["O1"], "C14": ["V1"]}, G,
      [("        fi.validate()\n        try:\n            uid = fi.get_uid()", "        try:\n            uid = fi.get_uid()"),
       ("        etag = self._import_one(name, fi.normalized(), message, author=author)\n",
        "        etag = self._import_one(name, fi.normalized(), message, author=author)\n        fi.validate()\n")],
      "GitStore.import_one validates after the write"),
    M("dupcheck-after-replace", {"C01": ["O1"], "C06": ["U1"]}, V,
      [("        self._check_duplicate(uid, name, replace_etag)\n\n", "\n"),
       ("        os.replace(tmppath, path)\n        return (name, self._get_etag(name))",
        "        os.replace(tmppath, path)\n        self._check_duplicate(uid, name, replace_etag)\n        return (name, self._get_etag(name))")],
      "VdirStore.import_one checks duplicates/etag after the rename"),
    M("delete-before-ifmatch", {"C01": ["O2"], "C03": ["P1"]}, D,
      [("        if if_match is not None and not etag_matches(if_match, current_etag):\n            return Response(status=412, reason=\"Precondition Failed\")\n        pr.delete_member(item_name, current_etag)\n",
        "        pr.delete_member(item_name, current_etag)\n        if if_match is not None and not etag_matches(if_match, current_etag):\n            return Response(status=412, reason=\"Precondition Failed\")\n")],
      "DELETE evaluates If-Match after deleting"),
    M("members-etag-by-name", {"C01": ["H1"]}, W,
      [("            resource = self._get_resource(name, content_type, etag)\n            yield (name, resource)",
        "            resource = self._get_resource(name, content_type, self.store._get_etag(name))\n            yield (name, resource)")],
      "listing mints resources with an etag looked up separately by name"),
    M("unhide-config-bare", {"C01": ["H2"]}, G,
      [("        for name, mode, sha in tree.iteritems():\n            name = name.decode(DEFAULT_ENCODING)\n            if name == CONFIG_FILENAME:\n                continue\n            yield (name, mode, sha)\n\n    @classmethod\n    def create_memory",
        "        for name, mode, sha in tree.iteritems():\n            name = name.decode(DEFAULT_ENCODING)\n            yield (name, mode, sha)\n\n    @classmethod\n    def create_memory")],
      "bare store lists .xandikos as a member"),
    M("delete-other-index-entry", {"C01": ["F1"], "C09": ["K3"]}, G,
      [("                del index[name.encode(DEFAULT_ENCODING)]", "                del index[message.encode(DEFAULT_ENCODING)]")],
      "tree delete removes the index entry keyed by another value"),
    M("etag-from-replace-etag", {"C02": ["E1"]}, W,
      [("            raise webdav.ResourceLocked() from exc\n        return create_strong_etag(etag)",
        "            raise webdav.ResourceLocked() from exc\n        return create_strong_etag(extract_strong_etag(replace_etag) or etag)")],
      "set_body answers with the old etag when one was supplied"),
    M("put-returns-current-etag", {"C02": ["E2"]}, D,
      [("                return Response(status=\"204 No Content\", headers=[(\"ETag\", new_etag)])",
        "                return Response(status=\"204 No Content\", headers=[(\"ETag\", current_etag)])")],
      "PUT update answers with the previous etag"),
    M("hash-first-chunk", {"C02": ["E3"]}, V,
      [("                for chunk in f:\n                    md5.update(chunk)\n", "                for chunk in f:\n                    md5.update(chunk)\n                    break\n")],
      "vdir etag hashes only the first line"),
    M("getfile-without-etag", {"C02": ["E4"]}, W,
      [("                self.store.get_file, self.name, self.content_type, self.etag\n", "                self.store.get_file, self.name, self.content_type\n")],
      "body is read by name only"),
    M("wsgi-header-names", {"C03": ["H1"]}, D,
      [("(k[5:].replace(\"_\", \"-\"), v)", "(k[5:], v)")], "WSGI adapter keeps CGI header spelling (reverts fix 7749e53)"),
    M("drop-if-none-match", {"C03": ["P1"]}, D,
      [("        if if_none_match and etag_matches(if_none_match, current_etag):\n            return Response(status=\"412 Precondition Failed\")\n        if r is not None:\n            # Item already exists; update it",
        "        if r is not None:\n            # Item already exists; update it")],
      "PUT ignores If-None-Match"),
    M("setbody-without-etag", {"C03": ["P2"]}, D,
      [("new_etag = await r.set_body(new_contents, current_etag)", "new_etag = await r.set_body(new_contents)")],
      "PUT does not hand the tested etag down"),
    M("stale-etag-on-missing", {"C03": ["P3"]}, G,
      [("        if replace_etag is not None and etag != replace_etag:\n            raise InvalidETag(name, etag, replace_etag)",
        "        if replace_etag is not None and etag is not None and etag != replace_etag:\n            raise InvalidETag(name, etag, replace_etag)")],
      "replace_etag accepted when the resource is gone"),
    M("vdir-write-in-place", {"C04": ["A1", "A2"]}, V,
      [("        with open(tmppath, \"wb\") as f:\n            for chunk in fi.normalized():\n                f.write(chunk)\n        os.replace(tmppath, path)\n",
        "        with open(path, \"wb\") as f:\n            for chunk in fi.normalized():\n                f.write(chunk)\n")],
      "vdir member written in place"),
    M("vdir-metadata-in-place", {"C04": ["A2"]}, V,
      [("            tmppath = path + \".tmp\"\n            with open(tmppath, \"w\") as f:\n                f.write(data)\n            os.replace(tmppath, path)\n",
        "            with open(path, \"w\") as f:\n                f.write(data)\n")],
      "vdir metadata written in place (reverts fix a055c8d)"),
    M("commit-before-objects", {"C04": ["B1"], "C09": ["K5"]}, G,
      [("        self.repo.object_store.add_objects([(tree, \"\"), (b, name_enc)])\n        if tree.id != old_tree_id:\n            self._commit_tree(tree.id, message.encode(DEFAULT_ENCODING), author=author)\n",
        "        if tree.id != old_tree_id:\n            self._commit_tree(tree.id, message.encode(DEFAULT_ENCODING), author=author)\n        self.repo.object_store.add_objects([(tree, \"\"), (b, name_enc)])\n")],
      "bare store moves the ref before storing tree and blob"),
    M("etag-from-worktree", {"C04": ["B2"]}, G,
      [("        index = self.repo.open_index()\n        name = name.encode(DEFAULT_ENCODING)\n        return index[name].sha.decode(\"ascii\")",
        "        with open(os.path.join(self.repo.path, name), \"rb\") as f:\n            return Blob.from_string(f.read()).id.decode(\"ascii\")")],
      "tree store computes etags from the working-tree file"),
    M("no-abort-on-error", {"C04": ["B3"]}, G,
      [("        if exc_type is not None:\n            self._file.abort()\n            return\n", "        if exc_type is not None:\n            pass\n")],
      "locked_index writes the index even when the body raised"),
    M("unlink-outside-lock", {"C05": ["L0"], "C09": ["K3"]}, G,
      [("        try:\n            with locked_index(self.repo.index_path()) as index:\n                os.unlink(p)\n", "        os.unlink(p)\n        try:\n            with locked_index(self.repo.index_path()) as index:\n")],
      "tree delete unlinks the file before taking the lock"),
    M("locked-not-translated", {"C05": ["L0"]}, W,
      [("        except OutOfSpaceError as exc:\n            raise webdav.InsufficientStorage() from exc\n        except LockedError as exc:\n            raise webdav.ResourceLocked() from exc\n",
        "        except OutOfSpaceError as exc:\n            raise webdav.InsufficientStorage() from exc\n")],
      "create_member lets LockedError escape (500 instead of 423)"),
    M("dup-refuses-same-name", {"C06": ["U1"]}, G,
      [("                if existing_name != name:\n                    raise DuplicateUidError(uid, existing_name, name)", "                if existing_name == name:\n                    raise DuplicateUidError(uid, existing_name, name)")],
      "duplicate check inverted"),
    M("uid-map-leak", {"C06": ["U2"]}, G,
      [("            if name in self._fname_to_uid:\n                # The file changed; release the UID it used to hold.\n                old_uid = self._fname_to_uid[name][1]\n                if (\n                    old_uid is not None\n                    and self._uid_to_fname.get(old_uid, (None, None))[0] == name\n                ):\n                    del self._uid_to_fname[old_uid]\n", "")],
      "old UID stays reserved (reverts fix a91c652)"),
    M("dup-mapped-to-invalid", {"C06": ["U3"]}, W,
      [("        except DuplicateUidError as exc:\n            raise webdav.PreconditionFailure(\n                \"{%s}no-uid-conflict\" % caldav.NAMESPACE, \"UID already in use.\"\n            ) from exc\n        except LockedError as exc:\n            raise webdav.ResourceLocked() from exc\n        return create_strong_etag(etag)",
        "        except DuplicateUidError as exc:\n            raise webdav.PreconditionFailure(\n                \"{%s}valid-calendar-data\" % caldav.NAMESPACE, \"UID already in use.\"\n            ) from exc\n        except LockedError as exc:\n            raise webdav.ResourceLocked() from exc\n        return create_strong_etag(etag)")],
      "UID conflict reported as valid-calendar-data"),
    M("get-uid-stops-early", {"C06": ["U4"]}, IC,
      [("                return component[\"UID\"]\n            except KeyError:\n                pass\n        raise KeyError", "                return component[\"UID\"]\n            except KeyError:\n                break\n        raise KeyError")],
      "get_uid gives up at the first component without UID"),
    M("token-after-iteration", {"C07": ["T1"]}, SY,
      [("        yield SyncToken(new_token)", "        yield SyncToken(resource.get_sync_token())")], "sync report returns a token taken after the enumeration"),
    M("unknown-ctag-empty-tree", {"C07": ["T2"]}, G,
      [("            try:\n                tree = self.repo.object_store[ctag.encode(\"ascii\")]\n            except KeyError as exc:\n                raise InvalidCTag(ctag) from exc\n            for name, mode, sha in tree.iteritems():\n                name = name.decode(DEFAULT_ENCODING)\n                if name == CONFIG_FILENAME:\n                    continue\n                yield (name, mode, sha)\n        else:",
        "            try:\n                tree = self.repo.object_store[ctag.encode(\"ascii\")]\n            except KeyError:\n                tree = Tree()\n            for name, mode, sha in tree.iteritems():\n                name = name.decode(DEFAULT_ENCODING)\n                if name == CONFIG_FILENAME:\n                    continue\n                yield (name, mode, sha)\n        else:")],
      "unknown sync token treated as the empty collection"),
    M("no-removed-members", {"C07": ["T3"]}, G,
      [("        for name, (old_content_type, old_etag) in previous.items():\n            yield (name, old_content_type, old_etag, None)\n", "")],
      "iter_changes never reports removals"),
    M("synctoken-is-head", {"C08": ["G1"], "C07": ["T4"]}, W,
      [("    def get_sync_token(self) -> str:\n        return self.store.get_ctag()", "    def get_sync_token(self) -> str:\n        return self.store.repo.head().decode(\"ascii\")")],
      "sync-token is the commit id"),
    M("ctag-is-ref", {"C08": ["G2"]}, G,
      [("        return self._get_current_tree().id.decode(\"ascii\")", "        return self.repo.refs[self.ref].decode(\"ascii\")")], "bare ctag is the commit id"),
    M("ctag-commits", {"C08": ["G3"]}, G,
      [("        index = self.repo.open_index()\n        return index.commit(self.repo.object_store).decode(\"ascii\")",
        "        index = self.repo.open_index()\n        self._commit_tree(index, b\"snapshot\")\n        return index.commit(self.repo.object_store).decode(\"ascii\")")],
      "reading the ctag creates a commit"),
    M("always-commit", {"C09": ["K1"], "C14": ["V4"]}, G,
      [("        if tree.id != old_tree_id:\n            self._commit_tree(tree.id, message.encode(DEFAULT_ENCODING), author=author)\n        return b.id",
        "        self._commit_tree(tree.id, message.encode(DEFAULT_ENCODING), author=author)\n        return b.id")],
      "bare store commits no-op rewrites"),
    M("force-ref", {"C09": ["K2"]}, G,
      [("        self._commit_tree(tree.id, message.encode(DEFAULT_ENCODING), author=author)\n\n    @classmethod\n    def create(cls, path):\n        \"\"\"Create a new store backed by a Git repository on disk.\n\n        Returns: A `GitStore`\n        \"\"\"\n        os.mkdir(path)\n        return cls(dulwich.repo.Repo.init_bare(path))",
        "        new = self._commit_tree(tree.id, message.encode(DEFAULT_ENCODING), author=author)\n        self.repo.refs[self.ref] = new\n\n    @classmethod\n    def create(cls, path):\n        \"\"\"Create a new store backed by a Git repository on disk.\n\n        Returns: A `GitStore`\n        \"\"\"\n        os.mkdir(path)\n        return cls(dulwich.repo.Repo.init_bare(path))")],
      "delete writes the ref directly"),
    M("index-entry-wrong-stat", {"C09": ["K3"]}, G,
      [("index[encoded_name] = index_entry_from_stat(st, blob.id)", "index[encoded_name] = index_entry_from_stat(os.lstat(self.repo.path), blob.id)")],
      "index entry built from the stat of another path"),
    M("commit-current-tree", {"C09": ["K5"]}, G,
      [("            message=message, tree=tree_id, ref=self.ref, author=author\n", "            message=message, tree=self._get_current_tree().id, ref=self.ref, author=author\n")],
      "bare store commits the old tree"),
    M("propfilter-reads-param-index", {"C10": ["X2"]}, IC,
      [("    def match_indexes(self, indexes: SubIndexDict, tzify: TzifyFunction) -> bool:\n        myindex = \"P=\" + self.name", "    def match_indexes(self, indexes: SubIndexDict, tzify: TzifyFunction) -> bool:\n        myindex = \"A=\" + self.name")],
      "PropertyFilter reads a key it never produces"),
    M("index-only-current-keys", {"C10": ["X4"]}, ST,
      [("file_values = file.get_indexes(self.index.available_keys())", "file_values = file.get_indexes(keys)")], "index miss computes only the current filter's keys"),
    M("reset-keeps-in-index", {"C10": ["X5"]}, IX,
      [("    def reset(self, keys):\n        self._in_index = set()\n", "    def reset(self, keys):\n")], "index reset keeps the set of indexed etags"),
    M("comp-filter-if", {"C11": ["D1"]}, CD,
      [("            comp_filter.is_not_defined = True\n        elif subel.tag == \"{urn:ietf:params:xml:ns:caldav}comp-filter\":", "            comp_filter.is_not_defined = True\n        if subel.tag == \"{urn:ietf:params:xml:ns:caldav}comp-filter\":")],
      "is-not-defined falls through to the raise (reverts fix 18618bf)"),
    M("prop-filter-no-text-match", {"C11": ["D1"]}, CD,
      [("        elif subel.tag == \"{urn:ietf:params:xml:ns:caldav}text-match\":\n            parse_text_match(subel, prop_filter.filter_text_match)\n        elif subel.tag == \"{urn:ietf:params:xml:ns:caldav}param-filter\":",
        "        elif subel.tag == \"{urn:ietf:params:xml:ns:caldav}param-filter\":")],
      "prop-filter rejects text-match"),
    M("param-filter-wrong-builder", {"C11": ["D2"]}, CD,
      [("parse_text_match(subel, param_filter.filter_text_match)", "parse_text_match(subel, param_filter.filter_time_range)")], "reverts fix 40f1949"),
    M("vevent-dtend-inclusive", {"C11": ["R1"]}, IC,
      [("        return start < tzify(dtend.dt)\n", "        return start <= tzify(dtend.dt)\n")], "VEVENT DTEND row uses <="),
    M("vjournal-exclusive", {"C11": ["R1"]}, IC,
      [("def apply_time_range_vjournal(start, end, comp, tzify):\n    dtstart = comp.get(\"DTSTART\")\n    if not dtstart:\n        raise MissingProperty(\"DTSTART\")\n\n    if not (end > tzify(dtstart.dt)):\n        return False\n\n    if getattr(dtstart.dt, \"time\", None) is not None:\n        return start <= tzify(dtstart.dt)",
        "def apply_time_range_vjournal(start, end, comp, tzify):\n    dtstart = comp.get(\"DTSTART\")\n    if not dtstart:\n        raise MissingProperty(\"DTSTART\")\n\n    if not (end > tzify(dtstart.dt)):\n        return False\n\n    if getattr(dtstart.dt, \"time\", None) is not None:\n        return start < tzify(dtstart.dt)")],
      "VJOURNAL DATE-TIME row uses <"),
    M("vtodo-due-exclusive", {"C11": ["R1"]}, IC,
      [("        return start < tzify(due.dt) and end >= tzify(due.dt)", "        return start < tzify(due.dt) and end > tzify(due.dt)")], "VTODO DUE-only row uses >"),
    M("vtodo-created-inclusive", {"C11": ["R1"]}, IC,
      [("        return end > tzify(created.dt)", "        return end >= tzify(created.dt)")], "reverts part of fix 467b51c"),
    M("vfreebusy-exclusive", {"C11": ["R1"]}, IC,
      [("        return start <= tzify(dtend.dt) and end > tzify(dtstart.dt)", "        return start < tzify(dtend.dt) and end > tzify(dtstart.dt)")], "VFREEBUSY row uses <"),
    M("calendar-data-reserialised", {"C11": ["Q1"], "C17": ["M3"]}, CD,
      [("            serialized_cal = b\"\".join(await resource.get_body())\n", "            serialized_cal = (await calendar_from_resource(resource)).to_ical()\n")],
      "calendar-data re-serialises instead of serving the body"),
    M("ends-with-self", {"C12": ["A1"]}, CO, [("        return a.endswith(b)", "        return b.endswith(b)")], "reverts fix 359268c"),
    M("ascii-strict", {"C12": ["A2"]}, CO,
      [("        a.encode(\"utf-8\", \"surrogateescape\").upper(),\n        b.encode(\"utf-8\", \"surrogateescape\").upper(),\n        k,\n    ),\n    \"i;octet\"",
        "        a.encode(\"ascii\").upper(),\n        b.encode(\"ascii\").upper(),\n        k,\n    ),\n    \"i;octet\"")], "reverts fix 84d1c7d"),
    M("negate-swapped", {"C12": ["A3"]}, CR,
      [("    if negate_condition == \"yes\":\n        return not matches\n    else:\n        return matches", "    if negate_condition == \"yes\":\n        return matches\n    else:\n        return not matches")],
      "negate-condition inverted"),
    M("limit-off-by-one", {"C12": ["A4"]}, CR, [("if nresults is not None and i >= nresults:", "if nresults is not None and i > nresults:")], "nresults limit off by one"),
    M("no-request-normpath", {"C13": ["P1", "P2", "P3"]}, D,
      [("        path_info = posixpath.normpath(path_info)\n        r = self.backend.get_resource(path_info)", "        r = self.backend.get_resource(path_info)")], "reverts fix 094a7c2"),
    M("no-lstrip", {"C13": ["P1"]}, W,
      [("        return os.path.join(self.path, relpath.lstrip(\"/\"))", "        return os.path.join(self.path, relpath)")], "absolute component discards the root"),
    M("lookup-not-normalised", {"C13": ["P1", "P2", "P3"]}, W,
      [("        relpath = posixpath.normpath(relpath)\n        if not relpath.startswith(\"/\"):", "        if not relpath.startswith(\"/\"):")], "get_resource no longer normalises"),
    M("vcard-not-registered", {"C14": ["V2"]}, W,
      [("    store.load_extra_file_handler(ICalendarFile)\n    store.load_extra_file_handler(VCardFile)\n", "    store.load_extra_file_handler(ICalendarFile)\n")], "vCards are no longer validated"),
    M("invalid-mapped-to-uid", {"C14": ["V3"]}, W,
      [("            (name, etag) = self.store.import_one(name, content_type, contents)\n        except InvalidFileContents as exc:\n            # TODO(jelmer): Not every invalid file is a calendar file..\n            raise webdav.PreconditionFailure(\n                \"{%s}valid-calendar-data\" % caldav.NAMESPACE,",
        "            (name, etag) = self.store.import_one(name, content_type, contents)\n        except InvalidFileContents as exc:\n            # TODO(jelmer): Not every invalid file is a calendar file..\n            raise webdav.PreconditionFailure(\n                \"{%s}no-uid-conflict\" % caldav.NAMESPACE,")],
      "invalid data reported as UID conflict"),
    M("comment-key-mismatch", {"C15": ["M1"]}, CF,
      [("            self._configparser[\"DEFAULT\"][\"comment\"] = comment\n", "            self._configparser[\"DEFAULT\"][\"comments\"] = comment\n")], "comment written under another key than it is read from"),
    M("order-not-saved", {"C15": ["M2"]}, CF, [("        self._save(\"Set calendar order.\")\n", "")], "reverts fix 5f5bd5b"),
    M("interpolation-back", {"C15": ["M3"]}, G, [("cp = configparser.ConfigParser(interpolation=None)", "cp = configparser.ConfigParser()")], "reverts part of fix d1813fa"),
    M("color-wired-to-comment", {"C15": ["M4"]}, W,
      [("    def set_addressbook_color(self, color):\n        self.store.set_color(color)", "    def set_addressbook_color(self, color):\n        self.store.set_comment(color)")], "addressbook-color stored in the comment field"),
    M("depth1-recurses", {"C16": ["D1"]}, D, [("        elif depth == \"1\":\n            nextdepth = \"0\"", "        elif depth == \"1\":\n            nextdepth = \"1\"")], "Depth: 1 lists grandchildren too"),
    M("no-trailing-slash", {"C16": ["D2"]}, D,
      [("            href = ensure_trailing_slash(href)\n        yield (href, resource)", "            pass\n        yield (href, resource)")], "collection hrefs lose the trailing slash"),
    M("own-href-element", {"C16": ["Q1"]}, SY,
      [("        ret = ET.Element(\"{DAV:}sync-token\")\n        ret.text = self.token\n        return ret", "        ret = ET.Element(\"{DAV:}sync-token\")\n        ET.SubElement(ret, \"{DAV:}href\").text = self.token\n        return ret")],
      "an href element is built outside create_href"),
    M("status-from-url", {"C16": ["Q2"]}, D, [("        yield Status(href, propstat=propstat)", "        yield Status(request.url, propstat=propstat)")], "reverts part of fix ed01309"),
    M("location-half-quoted", {"C16": ["Q3"]}, D,
      [("        href = urllib.parse.quote(\n            urllib.parse.urljoin(ensure_trailing_slash(base_href), name)\n        )",
        "        href = urllib.parse.urljoin(\n            ensure_trailing_slash(base_href), urllib.parse.quote(name)\n        )")], "Location quotes only the member name"),
    M("wsgi-raw-pathinfo", {"C16": ["F1"]}, D,
      [("        self.match_info = {\"path_info\": path_from_environ(environ, \"PATH_INFO\")}", "        self.match_info = {\"path_info\": environ[\"PATH_INFO\"]}")], "reverts fix 157681b"),
    M("multiget-missing-200", {"C17": ["M1"]}, DC,
      [("                yield webdav.Status(href, \"404 Not Found\", propstat=[])", "                yield webdav.Status(href, \"200 OK\", propstat=[])")], "missing hrefs answered 200"),
    M("no-kind-check", {"C17": ["M2"]}, D,
      [("            if not prop.supported_on(resource):\n                raise KeyError\n            if hasattr(prop, \"get_value_ext\"):", "            if hasattr(prop, \"get_value_ext\"):")], "properties served for unsupported resources"),
    M("shared-property-table", {"C17": ["M4"]}, DC, [("    properties = dict(properties)\n", "")], "data property written into the shared table"),
    M("defaults-literal-home", {"C18": ["S1"]}, W,
      [("        principal.relpath, principal.get_calendar_home_set()[0], \"calendar\"\n", "        principal.relpath, \"calendars\", \"calendar\"\n")], "default calendar created under a literal path"),
    M("defaults-not-idempotent", {"C18": ["S2"]}, W,
      [("    try:\n        resource = backend.create_collection(calendar_path)\n    except FileExistsError:\n        pass\n    else:\n        resource.store.set_type(STORE_TYPE_CALENDAR)\n        logging.info(\"Create calendar in %s.\", resource.store.path)\n    addressbook_path",
        "    resource = backend.create_collection(calendar_path)\n    resource.store.set_type(STORE_TYPE_CALENDAR)\n    logging.info(\"Create calendar in %s.\", resource.store.path)\n    addressbook_path")],
      "second start with --defaults fails"),
    M("startup-wipes", {"C18": ["S3"]}, W,
      [("    if options.autocreate or options.defaults:\n        if not os.path.isdir(options.directory):\n            os.makedirs(options.directory)\n",
        "    if options.autocreate or options.defaults:\n        if os.path.isdir(options.directory) and options.defaults:\n            shutil.rmtree(options.directory)\n        if not os.path.isdir(options.directory):\n            os.makedirs(options.directory)\n")],
      "start-up re-initialises the data directory"),
    M("outbox-type-missing", {"C18": ["S4"]}, W, [("                    STORE_TYPE_SCHEDULE_OUTBOX: ScheduleOutbox,\n", "")], "no resource class for schedule-outbox"),
    M("carddav-wellknown-missing", {"C18": ["S5"]}, W,
      [("WELLKNOWN_DAV_PATHS = {\n    caldav.WELLKNOWN_CALDAV_PATH,\n    carddav.WELLKNOWN_CARDDAV_PATH,\n}", "WELLKNOWN_DAV_PATHS = {\n    caldav.WELLKNOWN_CALDAV_PATH,\n}")], "no carddav well-known redirect"),
]

MUTANTS += [
    M("first-instance-only", {"C12": ["A6"]}, CR,
      [("    for prop_el in prop:\n        matched = True\n        for subel in el:\n            if subel.tag == \"{urn:ietf:params:xml:ns:carddav}text-match\":\n                if not apply_text_match(subel, str(prop_el)):\n                    matched = False\n                    break\n            elif subel.tag == \"{urn:ietf:params:xml:ns:carddav}param-filter\":\n                if not apply_param_filter(subel, prop_el):\n                    matched = False\n                    break\n        if matched:\n            return True\n    return False",
        "    for prop_el in prop:\n        for subel in el:\n            if subel.tag == \"{urn:ietf:params:xml:ns:carddav}text-match\":\n                if not apply_text_match(subel, str(prop_el)):\n                    return False\n            elif subel.tag == \"{urn:ietf:params:xml:ns:carddav}param-filter\":\n                if not apply_param_filter(subel, prop_el):\n                    return False\n        return True\n    return False")],
      "prop-filter only looks at the first instance of a multi-valued property"),
    M("casemap-on-str", {"C12": ["A7"]}, CO,
      [("        a.encode(\"utf-8\", \"surrogateescape\").upper(),\n        b.encode(\"utf-8\", \"surrogateescape\").upper(),\n        k,\n    ),\n    \"i;octet\"",
        "        a.upper(),\n        b.upper(),\n        k,\n    ),\n    \"i;octet\"")], "ascii-casemap folds non-ASCII letters too"),
    M("dupcheck-skipped-on-etag-match", {"C06": ["U1"]}, G,
      [("    def _check_duplicate(self, uid, name, replace_etag):\n        if uid is not None and self._check_for_duplicate_uids:",
        "    def _check_duplicate(self, uid, name, replace_etag):\n        if replace_etag is not None and self._has_etag(name, replace_etag):\n            return replace_etag\n        if uid is not None and self._check_for_duplicate_uids:"),
       ("    def _scan_uids(self):\n        removed = set(self._fname_to_uid.keys())\n        for name, mode, sha in self._iterblobs():",
        "    def _has_etag(self, name, etag):\n        try:\n            return self._get_etag(name) == etag\n        except KeyError:\n            return False\n\n    def _scan_uids(self):\n        removed = set(self._fname_to_uid.keys())\n        for name, mode, sha in self._iterblobs():")],
      "conditional overwrite skips the UID check"),
    M("reverse-map-layout", {"C06": ["U5"]}, G,
      [("            if uid is not None and self._uid_to_fname.get(uid, (None, None))[0] == name:", "            if uid is not None and self._uid_to_fname.get(uid, (None, None))[1] == name:")],
      "reader uses the wrong tuple component of the reverse map"),
    M("etag-list-separator", {"C03": ["M1"]}, D,
      [("    for etag in condition.split(\",\"):", "    for etag in condition.split(\", \"):")], "etag lists without a space after the comma are not recognised"),
    M("found-not-reset", {"C10": ["X6"]}, IX,
      [("        new_index_keys = set()\n        for keys in necessary_keys:\n            found = False\n", "        new_index_keys = set()\n        found = False\n        for keys in necessary_keys:\n")],
      "per-group flag hoisted out of the loop"),
    M("old-etag-carried", {"C07": ["T5"]}, G,
      [("            try:\n                (old_content_type, old_etag) = previous[name]\n            except KeyError:\n                old_etag = None\n            else:\n                assert old_content_type == new_content_type\n",
        "            if name in previous:\n                (old_content_type, old_etag) = previous[name]\n                assert old_content_type == new_content_type\n"),
       ("        for name, new_content_type, new_etag in self.iter_with_etag(new_ctag):\n", "        old_etag = None\n        for name, new_content_type, new_etag in self.iter_with_etag(new_ctag):\n")],
      "old etag leaks from the previous member"),
    M("token-twice", {"C07": ["T1"]}, SY,
      [("        new_token = resource.get_sync_token()\n        try:\n            try:\n                diff_iter = resource.iter_differences_since(old_token, new_token)",
        "        try:\n            try:\n                diff_iter = resource.iter_differences_since(old_token, resource.get_sync_token())"),
       ("        yield SyncToken(new_token)", "        yield SyncToken(resource.get_sync_token())")], "sync token evaluated twice"),
    M("ctag-from-head", {"C08": ["G2"]}, G,
      [("        index = self.repo.open_index()\n        return index.commit(self.repo.object_store).decode(\"ascii\")",
        "        try:\n            return self.repo[self.ref].tree.decode(\"ascii\")\n        except KeyError:\n            index = self.repo.open_index()\n            return index.commit(self.repo.object_store).decode(\"ascii\")")],
      "tree ctag read from the branch head while members come from the index"),
    M("index-read-before-lock", {"C05": ["L0"]}, G,
      [("        self._file = GitFile(self._path, \"wb\")\n        self._index = Index(self._path)\n", "        self._index = Index(self._path)\n        self._file = GitFile(self._path, \"wb\")\n")],
      "index parsed before the lock file is taken"),
    M("wsgi-path-join", {"C18": ["S6"]}, D,
      [("        self.path = environ[\"SCRIPT_NAME\"] + path_from_environ(environ, \"PATH_INFO\")", "        self.path = posixpath.join(environ[\"SCRIPT_NAME\"], path_from_environ(environ, \"PATH_INFO\"))")],
      "WSGI request path loses the route prefix"),
    M("create-exist-ok", {"C18": ["S7"]}, G,
      [("        os.mkdir(path)\n        return cls(dulwich.repo.Repo.init(path))", "        os.makedirs(path, exist_ok=True)\n        return cls(dulwich.repo.Repo.init(path))")],
      "tree store creation re-initialises an existing directory"),
    M("subcollections-early-return", {"C01": ["H1"]}, W,
      [("    def subcollections(self):\n        for name in self.store.subdirectories():", "    def subcollections(self):\n        if self.store.get_type() in (STORE_TYPE_CALENDAR, STORE_TYPE_ADDRESSBOOK):\n            return\n        for name in self.store.subdirectories():")],
      "nested collections missing from Depth:1 listings"),
    M("cached-parser", {"C15": ["M5"]}, G,
      [("                if cf is not None:\n                    cp.read_string(b\"\".join(cf).decode(\"utf-8\"))", "                if cf is not None:\n                    cp = _PARSERS.setdefault(b\"\".join(cf), cp)\n                    cp.read_string(b\"\".join(cf).decode(\"utf-8\"))"),
       ("logger = logging.getLogger(__name__)\n", "logger = logging.getLogger(__name__)\n_PARSERS: dict = {}\n")],
      "metadata parser objects shared through a cache"),
    M("status-200-without-set", {"C15": ["M6"]}, D,
      [("            if not handler.supported_on(resource):\n                statuscode = \"404 Not Found\"\n            else:\n                try:\n                    await handler.set_value(href, resource, newval)\n                except NotImplementedError:\n                    # TODO(jelmer): Signal\n                    # {DAV:}cannot-modify-protected-property error\n                    statuscode = \"409 Conflict\"\n                else:\n                    statuscode = \"200 OK\"",
        "            statuscode = \"200 OK\"\n            if handler.supported_on(resource):\n                try:\n                    await handler.set_value(href, resource, newval)\n                except NotImplementedError:\n                    # TODO(jelmer): Signal\n                    # {DAV:}cannot-modify-protected-property error\n                    statuscode = \"409 Conflict\"")],
      "unsupported property reported as set"),
    M("multiget-key-normalised", {"C17": ["M4"]}, D,
      [("            paths[path] = href\n", "            paths[posixpath.normpath(path)] = href\n")], "different spellings of one resource collapse in a multiget"),
    M("calendar-data-filtered", {"C17": ["M3"], "C11": ["Q1"]}, CD,
      [("        el.text = serialized_cal.decode(\"utf-8\")", "        el.text = \"\".join(c for c in serialized_cal.decode(\"utf-8\") if c.isprintable() or c in \"\\t\\r\\n\")")],
      "calendar-data drops non-printable characters"),
]

ALLP = ["C%02d" % i for i in range(1, 19)]

# ---- mutants for the rules added after the seeding rounds (previously covered only by replayed seeds)
MUTANTS += [
    M("address-data-from-file-object", {"C12": ["A5"]}, CR,
      [('el.text = b"".join(await resource.get_body()).decode("utf-8")',
        'el.text = b"".join((await resource.get_file()).normalized()).decode("utf-8")')],
      "address-data serialises the re-normalised file object instead of the stored body"),
    M("sync-skips-deletions", {"C07": ["T6"]}, W,
      [("                yield (name, old_resource, new_resource)\n        except InvalidCTag as exc:",
        "                if new_resource is None:\n                    continue\n                yield (name, old_resource, new_resource)\n        except InvalidCTag as exc:")],
      "iter_differences_since drops removed members"),
    M("scan-shortcut-by-name", {"C06": ["U6"]}, G,
      [("            if name in self._fname_to_uid and self._fname_to_uid[name][0] == etag:\n                continue\n            blob = self.repo.object_store[sha]",
        "            if name in self._fname_to_uid:\n                continue\n            blob = self.repo.object_store[sha]")],
      "git _scan_uids trusts the cached uid of a name whatever its etag"),
    M("floating-as-utc", {"C11": ["Z1"]}, IC,
      [("        dt = dt.replace(tzinfo=default_timezone)\n    assert dt.tzinfo\n    return dt",
        "        dt = dt.replace(tzinfo=timezone.utc)\n    assert dt.tzinfo\n    return dt")],
      "floating times are pinned to UTC instead of the query's time zone"),
    M("index-first-value-only", {"C10": ["X8"]}, IC,
      [("                    if p is not None:\n                        yield p.to_ical()\n            else:\n                raise AssertionError",
        "                    if p is not None:\n                        yield p.to_ical()\n                        break\n            else:\n                raise AssertionError")],
      "_get_index stops after the first component that has the property"),
    M("timerange-one-key-group", {"C10": ["X9"]}, IC,
      [('        return [["P=" + prop] for prop in props]\n\n\nclass TextMatcher',
        '        return [["P=" + prop for prop in props]]\n\n\nclass TextMatcher')],
      "time-range matcher asks for its properties as one alternative group"),
    M("bare-delete-compares-str", {"C09": ["K6"]}, G,
      [('        if etag is not None and current_sha != etag.encode("ascii"):\n            raise InvalidETag(name, etag, current_sha.decode("ascii"))\n        del tree[name_enc]',
        '        if etag is not None and current_sha != etag:\n            raise InvalidETag(name, etag, current_sha.decode("ascii"))\n        del tree[name_enc]')],
      "bare delete compares the tree's bytes id with the str etag"),
    M("color-setter-strips", {"C15": ["M7"]}, W,
      [("    def set_calendar_color(self, color):\n        self.store.set_color(color)\n\n    def get_supported_calendar_components(self):\n        return [\"VEVENT\", \"VTODO\", \"VJOURNAL\", \"VFREEBUSY\"]",
        "    def set_calendar_color(self, color):\n        self.store.set_color(color.strip().upper())\n\n    def get_supported_calendar_components(self):\n        return [\"VEVENT\", \"VTODO\", \"VJOURNAL\", \"VFREEBUSY\"]")],
      "calendar-color setter normalises the value on the way down"),
    M("standalone-forgets-principal", {"C18": ["S8"]}, W,
      [("    backend = XandikosBackend(directory)\n    backend._mark_as_principal(current_user_principal)\n\n    if autocreate or defaults:",
        "    backend = XandikosBackend(directory)\n\n    if autocreate or defaults:")],
      "run_simple_server no longer registers the principal path"),
    # --- round-3 rules (independent of the seeded patches that motivated them) ---
    M("exit-unlinks-lock-by-path", {"C05": ["L6"]}, G,
      [("        if exc_type is not None:\n            self._file.abort()\n            return\n",
        "        if exc_type is not None:\n            self._file.abort()\n            if os.path.exists(self._path + \".lock\"):\n                os.unlink(self._path + \".lock\")\n            return\n")],
      "locked_index.__exit__ removes index.lock by path after aborting (may be the next holder's lock)"),
    M("uid-map-module-level", {"C05": ["L7"]}, G,
      [("        self._uid_to_fname: dict[str, tuple[bytes, str]] = {}\n", "        self._uid_to_fname = _UID_TO_FNAME\n"),
       ("class locked_index:", "_UID_TO_FNAME: dict = {}\n\n\nclass locked_index:")],
      "uid -> name map is one module-level dict shared by all stores"),
    M("listing-by-suffix-table", {"C06": ["U7"]}, G,
      [("            (mime_type, _) = MIMETYPES.guess_type(name)\n",
        "            mime_type = {\".ics\": \"text/calendar\", \".vcf\": \"text/vcard\"}.get(os.path.splitext(name)[1])\n")],
      "listing classifies names with a case-sensitive suffix table, the uid scan with MIMETYPES"),
    M("open-parent-directory", {"C13": ["P1", "P2", "P3", "P4"]}, G,
      [("            return cls.open(dulwich.repo.Repo(path), **kwargs)", "            return cls.open(dulwich.repo.Repo(os.path.dirname(path)), **kwargs)")],
      "open_from_path opens the parent directory"),
    M("order-zero-reads-unset", {"C15": ["M8"]}, W,
      [("        order = self.store.config.get_order()\n        if not order:\n            raise KeyError",
        "        order = self.store.config.get_order()\n        if not order or order == \"0\":\n            raise KeyError")],
      "calendar-order 0 is stored but reads back as not set"),
    M("href-prefix-strip", {"C17": ["M6"], "C18": ["S9"]}, D,
      [("        path = href[len(script_name) :]\n", "        path = href.strip(script_name)\n")],
      "route prefix removed with str.strip (a character set, both ends)"),
    M("type-defaults-to-calendar", {"C18": ["S9"]}, CF,
      [("        return self._configparser[\"DEFAULT\"][\"type\"]", "        return self._configparser[\"DEFAULT\"].get(\"type\") or \"calendar\"")],
      "file metadata without a recorded type claims to be a calendar (address books are misreported)"),
    M("time-range-index-needs-dtstart", {"C10": ["X10"], "C11": ["I2"]}, IC,
      [("        try:\n            component_handler = self.component_handlers[self.comp]\n        except KeyError:\n            logging.warning(\"unknown component %r in time-range filter\", self.comp)\n            return False\n        return component_handler(\n            self.start,\n            self.end,\n            # TODO",
        "        if \"DTSTART\" not in vs:\n            return False\n        try:\n            component_handler = self.component_handlers[self.comp]\n        except KeyError:\n            logging.warning(\"unknown component %r in time-range filter\", self.comp)\n            return False\n        return component_handler(\n            self.start,\n            self.end,\n            # TODO")],
      "indexed time-range answers False without DTSTART (VTODO with only DUE matches on the naive path)"),
    M("text-match-index-universal", {"C11": ["I4"]}, IC,
      [("        return any(\n            self.match(self.type_fn(self.type_fn.from_ical(k))) for k in indexes[None]\n        )",
        "        return all(\n            self.match(self.type_fn(self.type_fn.from_ical(k))) for k in indexes[None]\n        )")],
      "indexed text-match is universal over the values: a component without the property matches"),
    M("post-location-from-path", {"C01": ["W9"]}, D,
      [("            urllib.parse.urljoin(ensure_trailing_slash(base_href), name)", "            urllib.parse.urljoin(ensure_trailing_slash(path), name)")],
      "Location of a POSTed member is joined onto the backend path (no mount prefix)"),
    M("tree-create-recursive", {"C01": ["W8"]}, G,
      [("        os.mkdir(path)\n        return cls(dulwich.repo.Repo.init(path))", "        os.makedirs(path)\n        return cls(dulwich.repo.Repo.init(path))")],
      "TreeGitStore.create makes missing parents: MKCOL below a missing collection answers 201"),
    M("sync-token-wrapped", {"C07": ["T10"]}, SY,
      [("        ret.text = self.token\n", "        ret.text = \"urn:x-sync:\" + self.token\n")],
      "REPORT wraps the sync token, the DAV:sync-token property does not"),
    M("trailing-slash-keeps-empty", {"C16": ["H3"]}, D,
      [("    if href.endswith(\"/\"):\n        return href\n    return href + \"/\"", "    if not href or href.endswith(\"/\"):\n        return href\n    return href + \"/\"")],
      "ensure_trailing_slash leaves the empty SCRIPT_NAME empty (relative principal href)"),
    M("metadata-save-skips-empty", {"C15": ["M14"]}, CF,
      [("        if self._save_cb is None:\n            return\n        self._save_cb(self._configparser, message)",
        "        if self._save_cb is None:\n            return\n        if not any(self._configparser.values()):\n            return\n        self._save_cb(self._configparser, message)")],
      "removing the last property of a collection is acknowledged and not saved"),
    M("post-create-via-thread", {"C03": ["P7"]}, W,
      [("        try:\n            (name, etag) = self.store.import_one(name, content_type, contents)", "        try:\n            (name, etag) = await to_thread(self.store.import_one, name, content_type, contents)")],
      "create_member suspends between the If-None-Match check and the create"),
]

BENIGN: List[M] = [
    M("b-href-removeprefix", {p: [] for p in ("C13", "C16", "C17", "C18")}, D,
      [("        path = href[len(script_name) :]\n", "        path = href.removeprefix(script_name)\n")],
      "route prefix removed with str.removeprefix", benign=True),
    M("b-rename-local", {p: [] for p in ("C01", "C02", "C03", "C05", "C06", "C14")}, D,
      [("        if r is not None:\n            current_etag = await r.get_etag()\n        else:\n            current_etag = None\n        if_match = request.headers.get(\"If-Match\", None)\n        if if_match is not None and not etag_matches(if_match, current_etag):\n            return Response(status=\"412 Precondition Failed\")\n        if_none_match = request.headers.get(\"If-None-Match\", None)\n        if if_none_match and etag_matches(if_none_match, current_etag):\n            return Response(status=\"412 Precondition Failed\")\n        if r is not None:\n            # Item already exists; update it\n            try:\n                new_etag = await r.set_body(new_contents, current_etag)",
        "        if r is not None:\n            cur = await r.get_etag()\n        else:\n            cur = None\n        if_match = request.headers.get(\"If-Match\", None)\n        if if_match is not None and not etag_matches(if_match, cur):\n            return Response(status=\"412 Precondition Failed\")\n        if_none_match = request.headers.get(\"If-None-Match\", None)\n        if if_none_match and etag_matches(if_none_match, cur):\n            return Response(status=\"412 Precondition Failed\")\n        if r is not None:\n            # Item already exists; update it\n            try:\n                new_etag = await r.set_body(new_contents, cur)")],
      "rename a local variable in PUT", benign=True),
    M("b-nested-ifs", {p: [] for p in ("C01", "C03")}, D,
      [("        if if_match is not None and not etag_matches(if_match, current_etag):\n            return Response(status=\"412 Precondition Failed\")\n        if_none_match",
        "        if if_match is not None:\n            if not etag_matches(if_match, current_etag):\n                return Response(status=\"412 Precondition Failed\")\n        if_none_match")],
      "conjunction split into nested ifs", benign=True),
    M("b-nested-ifs-store", {p: [] for p in ("C01", "C03", "C05", "C06")}, G,
      [("        if replace_etag is not None and etag != replace_etag:\n            raise InvalidETag(name, etag, replace_etag)\n        return etag",
        "        if replace_etag is not None:\n            if etag != replace_etag:\n                raise InvalidETag(name, etag, replace_etag)\n        return etag")],
      "conjunction split into nested ifs in _check_duplicate", benign=True),
    M("b-not-ge", {"C11": []}, IC,
      [("        return start < tzify(dtend.dt)\n", "        return not (start >= tzify(dtend.dt))\n")], "< rewritten as not >=", benign=True),
    M("b-reorder-independent", {p: [] for p in ("C01", "C06", "C14", "C05", "C13")}, G,
      [("        if name is None:\n            name = str(uuid.uuid4())\n            extension = MIMETYPES.guess_extension(content_type)\n            if extension is not None:\n                name += extension\n        fi.validate()\n",
        "        fi.validate()\n        if name is None:\n            name = str(uuid.uuid4())\n            extension = MIMETYPES.guess_extension(content_type)\n            if extension is not None:\n                name += extension\n")],
      "validate before name generation", benign=True),
    M("b-early-return-dispatch", {"C12": []}, CO,
      [("    if k == \"equals\":\n        return a == b\n    elif k == \"contains\":\n        return b in a\n    elif k == \"starts-with\":", "    if k == \"equals\":\n        return a == b\n    if k == \"contains\":\n        return b in a\n    elif k == \"starts-with\":")],
      "elif chain partly rewritten as early returns", benign=True),
    M("b-unparse-webdav", {p: [] for p in ALLP}, D, [], "whole module re-emitted by ast.unparse (comments dropped, layout changed)", benign=True),
    M("b-unparse-git", {p: [] for p in ALLP}, G, [], "whole module re-emitted by ast.unparse", benign=True),
    M("b-unparse-web", {p: [] for p in ALLP}, W, [], "whole module re-emitted by ast.unparse", benign=True),
    M("b-unparse-icalendar", {p: [] for p in ("C06", "C10", "C11", "C14")}, IC, [], "whole module re-emitted by ast.unparse", benign=True),
    M("b-unparse-vdir", {p: [] for p in ("C01", "C02", "C03", "C04", "C06", "C13", "C14", "C15")}, V, [], "whole module re-emitted by ast.unparse", benign=True),
    M("b-unparse-caldav", {p: [] for p in ("C01", "C11", "C13", "C15", "C16", "C17", "C18")}, CD, [], "whole module re-emitted by ast.unparse", benign=True),
    M("b-unparse-carddav", {p: [] for p in ("C12", "C15", "C16", "C17", "C18")}, CR, [], "whole module re-emitted by ast.unparse", benign=True),
    M("b-unparse-collation", {p: [] for p in ("C11", "C12")}, CO, [], "whole module re-emitted by ast.unparse", benign=True),
    M("b-unparse-sync", {p: [] for p in ("C02", "C07", "C08", "C16")}, SY, [], "whole module re-emitted by ast.unparse", benign=True),
    M("b-unparse-davcommon", {p: [] for p in ("C02", "C17")}, DC, [], "whole module re-emitted by ast.unparse", benign=True),
    M("b-unparse-store", {p: [] for p in ("C01", "C02", "C10", "C14")}, ST, [], "whole module re-emitted by ast.unparse", benign=True),
    M("b-unparse-index", {p: [] for p in ("C10",)}, IX, [], "whole module re-emitted by ast.unparse", benign=True),
    M("b-unparse-config", {p: [] for p in ("C01", "C15")}, CF, [], "whole module re-emitted by ast.unparse", benign=True),
    M("b-get-member-dict", {p: [] for p in ("C01", "C13")}, W,
      [("        for fname, content_type, fetag in self.store.iter_with_etag():\n            if name == fname:\n                return self._get_resource(name, content_type, fetag)\n",
        "        for fname, content_type, fetag in self.store.iter_with_etag():\n            if fname != name:\n                continue\n            return self._get_resource(fname, content_type, fetag)\n")],
      "lookup loop rewritten with continue", benign=True),
    M("b-scan-rebuild", {p: [] for p in ("C05", "C06")}, V,
      [("        for name in removed:\n            (unused_etag, uid) = self._fname_to_uid[name]\n            if uid is not None and self._uid_to_fname.get(uid, (None, None))[0] == name:\n                del self._uid_to_fname[uid]\n            del self._fname_to_uid[name]\n",
        "        for name in removed:\n            (unused_etag, uid) = self._fname_to_uid.pop(name)\n            if uid is not None and self._uid_to_fname.get(uid, (None, None))[0] == name:\n                self._uid_to_fname.pop(uid)\n")],
      "removal written with pop()", benign=True),
]


def _copy_tree(repo: str, dst: str):
    shutil.copytree(os.path.join(repo, "xandikos"), os.path.join(dst, "xandikos"),
                    ignore=shutil.ignore_patterns("tests", "__pycache__", "templates", "*.pyc"))


def _apply(m: M, root: str) -> bool:
    path = os.path.join(root, m.file)
    if not os.path.exists(path):
        return False
    with open(path, encoding="utf-8") as f:
        s = f.read()
    if not m.edits:
        try:
            s2 = ast.unparse(ast.parse(s)) + "\n"
        except SyntaxError:
            return False
        s = s2
    for old, new in m.edits:
        if s.count(old) != 1:
            return False
        s = s.replace(old, new)
    try:
        compile(s, m.file, "exec")
    except SyntaxError:
        return False
    with open(path, "w", encoding="utf-8") as f:
        f.write(s)
    return True


def seeded_changes() -> List[Tuple[str, str, Dict[str, List[str]]]]:
    """(id, patch path, {property: [rules that reported it]}) for every confirmed seeded change under /verif/seeded."""
    import json
    from .core import VERIF
    out = []
    base = os.path.join(VERIF, "seeded")
    if not os.path.isdir(base):
        return out
    for d in sorted(os.listdir(base)):
        mp, pp = os.path.join(base, d, "meta.json"), os.path.join(base, d, "patch.diff")
        if not (os.path.exists(mp) and os.path.exists(pp)):
            continue
        try:
            meta = json.load(open(mp))
        except ValueError:
            continue
        if not meta.get("confirmed"):
            continue
        exp = {}
        for prop, v in meta.get("checks_reporting", {}).items():
            if v.get("exit") == 1:
                exp[prop] = sorted({x.split()[0].split("/")[1] for x in v.get("violated", [])})
        if exp:
            out.append((d, pp, exp))
    return out


def benign_changes():
    """(id, patch path, properties for which 'undecided' (exit 2, no violation) is the accepted answer) for every
    reviewed behaviour-preserving refactoring under /verif/benign."""
    import json
    from .core import VERIF
    out = []
    base = os.path.join(VERIF, "benign")
    if not os.path.isdir(base):
        return out
    for d in sorted(os.listdir(base)):
        mp, pp = os.path.join(base, d, "meta.json"), os.path.join(base, d, "patch.diff")
        if not (os.path.exists(mp) and os.path.exists(pp)):
            continue
        try:
            meta = json.load(open(mp))
        except ValueError:
            continue
        if meta.get("open_false_alarm"):
            continue      # a false alarm found and not yet corrected (DESIGN.md, round 8): recorded, not replayed
        if meta.get("suite_ok") and meta.get("reviewed_benign", True):
            out.append((d, pp, set(meta.get("accepted_undecided", []))))
    return out


def _work_benign(args) -> dict:
    bid, patch, prop, repo, scratch, base_keys, undecided_ok = args
    import subprocess
    from . import core
    root = os.path.join(scratch, "benign-%s-%s" % (bid, prop))
    os.makedirs(root)
    try:
        _copy_tree(repo, root)
        # the scratch copy holds the package without its test-suite; hunks for test files are not part of what is analysed
        r = subprocess.run(["git", "apply", "--whitespace=nowarn", "--exclude=xandikos/tests/*", "--include=xandikos/*", patch], cwd=root, capture_output=True, text=True)
        if r.returncode != 0:
            return {"id": "refactor:" + bid, "prop": prop, "status": "skipped", "benign": True, "desc": "refactoring (patch does not apply to this tree)"}
        run = core.run_property(prop, root, "quick")
        new = [o for o in run.violated if o.key not in base_keys]
        ok = not new and not run.errors
        if not new and run.errors and undecided_ok:
            # the refactoring leaves the modelled subset (documented in DESIGN.md): the honest answer is 'cannot decide'
            return {"id": "refactor:" + bid, "prop": prop, "status": "silent", "benign": True, "undecided": True,
                    "desc": "behaviour-preserving refactoring %s (undecided: %s)" % (bid, run.errors[0][:120]), "detail": []}
        return {"id": "refactor:" + bid, "prop": prop, "status": "silent" if ok else "noisy", "benign": True,
                "desc": "behaviour-preserving refactoring " + bid, "detail": [o.key for o in new][:3] + run.errors[:2]}
    finally:
        shutil.rmtree(root, ignore_errors=True)


def _work_seed(args) -> dict:
    sid, patch, prop, rules, repo, scratch, base_keys = args
    import subprocess
    from . import core
    root = os.path.join(scratch, "seed-%s-%s" % (sid, prop))
    os.makedirs(root)
    try:
        _copy_tree(repo, root)
        r = subprocess.run(["git", "apply", "--whitespace=nowarn", "--exclude=xandikos/tests/*", "--include=xandikos/*", patch], cwd=root, capture_output=True, text=True)
        if r.returncode != 0:
            return {"id": "seed:" + sid, "prop": prop, "status": "skipped", "desc": "seeded change (patch does not apply to this tree)"}
        run = core.run_property(prop, root, "quick")
        new = [o for o in run.violated if o.key not in base_keys]
        hit = [o for o in new if o.rule in rules]
        return {"id": "seed:" + sid, "prop": prop, "status": "caught" if hit else "missed", "desc": "seeded change " + sid,
                "rules": sorted({o.rule for o in new}), "first": hit[0].key if hit else "", "errors": run.errors[:2], "expect": rules}
    finally:
        shutil.rmtree(root, ignore_errors=True)


def _work(args) -> dict:
    mid, prop, repo, scratch, base_keys = args
    from . import core
    m = next(x for x in MUTANTS + BENIGN if x.mid == mid)
    root = os.path.join(scratch, "%s-%s" % (mid, prop))
    os.makedirs(root)
    try:
        _copy_tree(repo, root)
        if not _apply(m, root):
            return {"id": mid, "prop": prop, "status": "skipped", "desc": m.desc}
        r = core.run_property(prop, root, "quick")
        new = [o for o in r.violated if o.key not in base_keys]
        if m.benign:
            ok = not new and not r.errors
            return {"id": mid, "prop": prop, "status": "silent" if ok else "noisy", "desc": m.desc,
                    "detail": [o.key for o in new][:3] + r.errors[:2]}
        want = set(m.expect.get(prop, []))
        hit = [o for o in new if o.rule in want]
        return {"id": mid, "prop": prop, "status": "caught" if hit else "missed", "desc": m.desc,
                "rules": sorted({o.rule for o in new}), "first": hit[0].key if hit else "", "errors": r.errors[:2]}
    finally:
        shutil.rmtree(root, ignore_errors=True)


def run(prop: str, repo: str, jobs: int = 4, seed: int = 0) -> dict:
    from . import core
    base = core.run_property(prop, repo, "quick")
    base_keys = {o.key for o in base.violated}
    tasks = [(m.mid, prop) for m in MUTANTS if prop in m.expect] + [(m.mid, prop) for m in BENIGN if prop in m.expect]
    tmp_parent = os.environ.get("XSTATIC_SCRATCH") or tempfile.gettempdir()
    scratch = tempfile.mkdtemp(prefix="xstatic-selftest-", dir=tmp_parent)
    results = []
    try:
        args = [(mid, p, os.path.abspath(repo), scratch, base_keys) for mid, p in tasks]
        sargs = [(sid, patch, prop, exp[prop], os.path.abspath(repo), scratch, base_keys) for sid, patch, exp in seeded_changes() if prop in exp]
        bargs = [(bid, patch, prop, os.path.abspath(repo), scratch, base_keys, prop in und) for bid, patch, und in benign_changes()]
        if jobs <= 1 or len(args) + len(sargs) + len(bargs) <= 1:
            results = [_work(a) for a in args] + [_work_seed(a) for a in sargs] + [_work_benign(a) for a in bargs]
        else:
            with ProcessPoolExecutor(max_workers=min(jobs, len(args) + len(sargs) + len(bargs))) as ex:
                results = list(ex.map(_work, args)) + list(ex.map(_work_seed, sargs)) + list(ex.map(_work_benign, bargs))
    finally:
        shutil.rmtree(scratch, ignore_errors=True)
    ben = [r for r in results if r.get("benign") or any(b.mid == r["id"] for b in BENIGN)]
    mut = [r for r in results if r["status"] in ("caught", "missed", "skipped") and r not in ben]
    broken = ["mutant %s (%s) was not reported by rule(s) %s; rules that fired: %s %s"
              % (r["id"], r["desc"], r.get("expect") or next(m for m in MUTANTS if m.mid == r["id"]).expect[prop], r.get("rules"), r.get("errors") or "")
              for r in mut if r["status"] == "missed"]
    broken += ["benign variant %s (%s) made the check report %s" % (r["id"], r["desc"], r.get("detail")) for r in ben if r["status"] == "noisy"]
    return {
        "mutants": len(mut), "caught": len([r for r in mut if r["status"] == "caught"]),
        "seeded_changes_replayed": len([r for r in mut if r["id"].startswith("seed:")]),
        "skipped": len([r for r in mut + ben if r["status"] == "skipped"]),
        "benign": len(ben), "benign_silent": len([r for r in ben if r["status"] == "silent"]),
        "refactorings_replayed": len([r for r in ben if r["id"].startswith("refactor:") and r["status"] != "skipped"]),
        "broken": broken,
        "results": [{k: v for k, v in r.items() if k in ("id", "status", "first", "desc")} for r in results],
        "note": "mutants are applied to a scratch copy of %s outside /repo and /verif and removed; an edit whose anchor text is absent is skipped" % repo,
    }
