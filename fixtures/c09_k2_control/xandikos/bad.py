"""Positive control for C09/K2: constructs the scanner must recognise. Never imported."""


class Rewriter:
    def force_ref(self, sha):
        self.repo.refs[b"refs/heads/master"] = sha

    def drop_ref(self):
        del self.repo.refs[b"HEAD"]

    def cas(self, old, new):
        self.repo.refs.set_if_equals(b"HEAD", old, new)

    def merge(self, tree):
        self.repo.do_commit(message=b"x", tree=tree, merge_heads=[b"0" * 40])

    def other_branch(self, tree):
        self.repo.do_commit(message=b"x", tree=tree, ref=b"refs/heads/other")
