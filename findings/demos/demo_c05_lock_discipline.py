"""C05/L1-L3: schedules forced with barriers placed between the check and the write.
L1 tree store: two conditional updates against the same ETag both succeed.
L1 tree store: two conditional deletes/updates decided before the lock.
L2 bare store: concurrent writes to two different members - one is lost.
L3 uid maps: two scans interleave on the shared dictionaries."""
import os, shutil, threading
from common import scratch, ics, verdict
from xandikos.store.git import TreeGitStore, BareGitStore, GitStore
from xandikos.icalendar import ICalendarFile

base = scratch()
res = []
# --- L1 (import_one): both pass _check_duplicate, then serialise on the lock
s = TreeGitStore.create(os.path.join(base, "t")); s.load_extra_file_handler(ICalendarFile)
_, e0 = s.import_one("a.ics", "text/calendar", ics("U1", "v0"), message="m")
barrier = threading.Barrier(2); serial = threading.Lock()
orig = TreeGitStore._import_one
def patched(self, *a, **kw):
    barrier.wait()
    with serial:
        return orig(self, *a, **kw)
TreeGitStore._import_one = patched
out = {}
def upd(tag):
    try: out[tag] = s.import_one("a.ics", "text/calendar", ics("U1", tag), message="m", replace_etag=e0)
    except Exception as ex: out[tag] = ("EXC", type(ex).__name__)
ts = [threading.Thread(target=upd, args=(t,)) for t in ("A", "B")]
[t.start() for t in ts]; [t.join() for t in ts]
TreeGitStore._import_one = orig
ok = [k for k, v in out.items() if v[0] != "EXC"]
res.append(("L1 tree: two updates with replace_etag=%s.. -> %s (both acknowledged)" % (e0[:8], out), len(ok) == 2))
# --- L1 (same UID, two new names)
barrier = threading.Barrier(2)
TreeGitStore._import_one = patched
out = {}
def put(name):
    try: out[name] = s.import_one(name, "text/calendar", ics("SAME", name), message="m")
    except Exception as ex: out[name] = ("EXC", type(ex).__name__)
ts = [threading.Thread(target=put, args=(n,)) for n in ("p.ics", "q.ics")]
[t.start() for t in ts]; [t.join() for t in ts]
TreeGitStore._import_one = orig
res.append(("L1 tree: two creates with UID 'SAME' -> %s (two resources share a UID)" % out,
            all(v[0] != "EXC" for v in out.values())))
# --- L1 (delete_one): a conditional delete and a conditional update against the same ETag
import xandikos.store.git as g
_, e1 = s.import_one("d.ics", "text/calendar", ics("UD", "v0"), message="m")
barrier_d = threading.Barrier(2); serial_d = threading.Lock()
OrigLI = g.locked_index
class SlowLI(OrigLI):
    def __enter__(self):
        barrier_d.wait()          # both operations have made their etag decision
        serial_d.acquire()
        return super().__enter__()
    def __exit__(self, *a):
        try: return super().__exit__(*a)
        finally: serial_d.release()
g.locked_index = SlowLI
outd = {}
def do_update():
    try: outd["update"] = s.import_one("d.ics", "text/calendar", ics("UD", "v1"), message="m", replace_etag=e1)
    except Exception as ex: outd["update"] = ("EXC", type(ex).__name__)
def do_delete():
    try: s.delete_one("d.ics", message="m", etag=e1); outd["delete"] = ("ok",)
    except Exception as ex: outd["delete"] = ("EXC", type(ex).__name__)
ts = [threading.Thread(target=do_update), threading.Thread(target=do_delete)]
[t.start() for t in ts]; [t.join() for t in ts]
g.locked_index = OrigLI
res.append(("L1 tree: update(If-Match e) and delete(If-Match e) -> %s (both acknowledged; sequentially the second must fail)" % outd,
            all(v[0] != "EXC" for v in outd.values())))
# --- L2 bare
b = BareGitStore.create(os.path.join(base, "b")); b.load_extra_file_handler(ICalendarFile)
b.import_one("base.ics", "text/calendar", ics("U0"), message="m")
barrier2 = threading.Barrier(2); serial2 = threading.Lock()
origc = BareGitStore._commit_tree
def patchedc(self, *a, **kw):
    barrier2.wait()
    with serial2:
        return origc(self, *a, **kw)
BareGitStore._commit_tree = patchedc
out2 = {}
def put2(name, uid):
    try: out2[name] = b.import_one(name, "text/calendar", ics(uid), message="m")
    except Exception as ex: out2[name] = ("EXC", type(ex).__name__, str(ex))
ts = [threading.Thread(target=put2, args=a) for a in (("x.ics", "UX"), ("y.ics", "UY"))]
[t.start() for t in ts]; [t.join() for t in ts]
BareGitStore._commit_tree = origc
members = sorted(n for n, _, _ in b.iter_with_etag())
res.append(("L2 bare: PUT x.ics and y.ics both acknowledged (%s), members afterwards: %s"
            % (sorted(k for k, v in out2.items() if v[0] != "EXC"), members),
            all(v[0] != "EXC" for v in out2.values()) and not {"x.ics", "y.ics"} <= set(members)))
# --- L3 maps: two scans that both saw 'gone.ics' as removed
s3 = BareGitStore.create(os.path.join(base, "m")); s3.load_extra_file_handler(ICalendarFile)
s3.import_one("gone.ics", "text/calendar", ics("UG"), message="m")
s3._scan_uids()
s3.delete_one("gone.ics", message="d")
barrier3 = threading.Barrier(2)
origi = BareGitStore._iterblobs
def slow_iter(self, ctag=None):
    for x in origi(self, ctag):
        yield x
    barrier3.wait()          # both scans have computed `removed` before either cleans the maps
BareGitStore._iterblobs = slow_iter
out3 = {}
def scan(tag):
    try: s3._scan_uids(); out3[tag] = "ok"
    except Exception as ex: out3[tag] = "EXC %s" % type(ex).__name__
ts = [threading.Thread(target=scan, args=(t,)) for t in ("A", "B")]
[t.start() for t in ts]; [t.join() for t in ts]
BareGitStore._iterblobs = origi
res.append(("L3 maps: two concurrent _scan_uids() after a delete -> %s (one fails on the shared dict)" % out3,
            any(v.startswith("EXC") for v in out3.values())))
shutil.rmtree(base)
verdict(res)
