"""C11/R2: a recurring event whose first instance is outside the range but a later one inside does not match.
C11/M1: text-match is an equality test, RFC 4791 9.7.5 defines a substring match."""
from zoneinfo import ZoneInfo
from xml.etree import ElementTree as ET
from common import verdict
from xandikos import caldav
from xandikos.icalendar import ICalendarFile, CalendarFilter

NS = "urn:ietf:params:xml:ns:caldav"
def flt(xml): return caldav.parse_filter(ET.fromstring(xml), CalendarFilter(ZoneInfo("UTC")))
weekly = ICalendarFile([("BEGIN:VCALENDAR\r\nVERSION:2.0\r\nPRODID:x\r\nBEGIN:VEVENT\r\nUID:r1\r\nSUMMARY:Weekly staff meeting\r\n"
                         "DTSTART:20200106T100000Z\r\nDTEND:20200106T110000Z\r\nRRULE:FREQ=WEEKLY\r\nEND:VEVENT\r\nEND:VCALENDAR\r\n").encode()], "text/calendar")
F_TR = ('<C:filter xmlns:C="%s"><C:comp-filter name="VCALENDAR"><C:comp-filter name="VEVENT"><C:time-range start="20200301T000000Z" '
        'end="20200401T000000Z"/></C:comp-filter></C:comp-filter></C:filter>' % NS)
F_TM = ('<C:filter xmlns:C="%s"><C:comp-filter name="VCALENDAR"><C:comp-filter name="VEVENT"><C:prop-filter name="SUMMARY">'
        '<C:text-match>staff</C:text-match></C:prop-filter></C:comp-filter></C:comp-filter></C:filter>' % NS)
m1 = flt(F_TR).check("r1.ics", weekly)
m2 = flt(F_TM).check("r1.ics", weekly)
verdict([("R2 weekly event from 2020-01-06, time-range March 2020 (instances every Monday): matches=%s" % m1, m1 is False),
         ("M1 SUMMARY 'Weekly staff meeting', text-match 'staff': matches=%s" % m2, m2 is False)])
