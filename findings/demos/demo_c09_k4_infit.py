"""C09/K4: PROPPATCH of the inf-it settings property on a principal that is a git collection writes an
untracked file into the working tree: `git status` is no longer clean."""
import os, shutil
from common import scratch, make_app, wsgi, verdict
from dulwich.repo import Repo
from dulwich import porcelain

base = scratch()
root = os.path.join(base, "dav"); os.makedirs(root)
app = make_app(root)
MK = b'<D:mkcol xmlns:D="DAV:"><D:set><D:prop><D:resourcetype><D:principal/></D:resourcetype></D:prop></D:set></D:mkcol>'
r1 = wsgi(app, "MKCOL", "/p2", MK, ct="text/xml")
from xandikos import web
web.open_store_from_path.cache_clear()
PP = (b'<D:propertyupdate xmlns:D="DAV:" xmlns:I="http://inf-it.com/ns/dav/"><D:set><D:prop><I:settings>{"a":1}</I:settings>'
      b'</D:prop></D:set></D:propertyupdate>')
r2 = wsgi(app, "PROPPATCH", "/p2", PP, ct="text/xml")
st = porcelain.status(Repo(os.path.join(root, "p2")))
untracked = [u if isinstance(u, str) else u.decode() for u in st.untracked]
shutil.rmtree(base)
verdict([("MKCOL principal %s, PROPPATCH settings %s, untracked files in the working tree: %s" % (r1[0], r2[0], untracked),
          ".infit" in untracked)])
