"""C10/X1, X3, X7: results change (or the query fails) once the indexing threshold is passed."""
import os, shutil
from zoneinfo import ZoneInfo
from xml.etree import ElementTree as ET
from common import scratch, verdict
from xandikos import caldav
from xandikos.store.vdir import VdirStore
from xandikos.icalendar import ICalendarFile, CalendarFilter

NS = "urn:ietf:params:xml:ns:caldav"
def flt(xml): return caldav.parse_filter(ET.fromstring(xml), CalendarFilter(ZoneInfo("UTC")))
def run(store, xml, n=9):
    out = []
    for i in range(n):
        try: out.append(sorted(nm for nm, f, e in store.iter_with_filter(flt(xml))))
        except Exception as e: out.append("EXC %s" % type(e).__name__)
    return out

base = scratch()
res = []
ev = ("BEGIN:VCALENDAR\r\nVERSION:2.0\r\nPRODID:x\r\nBEGIN:VEVENT\r\nUID:e1\r\nDTSTART:20200110T000000Z\r\nATTENDEE;PARTSTAT=ACCEPTED:mailto:a@b\r\n"
      "END:VEVENT\r\nEND:VCALENDAR\r\n").encode()
two = ("BEGIN:VCALENDAR\r\nVERSION:2.0\r\nPRODID:x\r\nBEGIN:VEVENT\r\nUID:e2\r\nDTSTART:20100110T000000Z\r\nDTEND:20100110T010000Z\r\nEND:VEVENT\r\n"
       "BEGIN:VEVENT\r\nUID:e2\r\nRECURRENCE-ID:20200110T000000Z\r\nDTSTART:20200110T000000Z\r\nDTEND:20200110T010000Z\r\nEND:VEVENT\r\nEND:VCALENDAR\r\n").encode()
# X1: param-filter keys ("A=") crash the extractor
s = VdirStore.create(os.path.join(base, "x1")); s.load_extra_file_handler(ICalendarFile)
s.import_one("e1.ics", "text/calendar", [ev])
F_PARAM = ('<C:filter xmlns:C="%s"><C:comp-filter name="VCALENDAR"><C:comp-filter name="VEVENT"><C:prop-filter name="ATTENDEE">'
           '<C:param-filter name="PARTSTAT"><C:is-not-defined/></C:param-filter></C:prop-filter></C:comp-filter></C:comp-filter></C:filter>' % NS)
r = run(s, F_PARAM)
res.append(("X1 param-filter query repeated: %s" % r, len({str(x) for x in r}) > 1))
# X3: resource with two VEVENTs and a time-range filter
s = VdirStore.create(os.path.join(base, "x3")); s.load_extra_file_handler(ICalendarFile)
s.import_one("e2.ics", "text/calendar", [two])
F_TR = ('<C:filter xmlns:C="%s"><C:comp-filter name="VCALENDAR"><C:comp-filter name="VEVENT"><C:time-range start="20200109T000000Z" '
        'end="20200111T000000Z"/></C:comp-filter></C:comp-filter></C:filter>' % NS)
r = run(s, F_TR)
res.append(("X3 time-range query on a two-component resource repeated: %s" % r, len({str(x) for x in r}) > 1))
# X7: an unparseable member
s = VdirStore.create(os.path.join(base, "x7")); s.load_extra_file_handler(ICalendarFile)
s.import_one("e1.ics", "text/calendar", [ev])
open(os.path.join(base, "x7", "bad.ics"), "wb").write(b"this is not a calendar\n")
F_EV = '<C:filter xmlns:C="%s"><C:comp-filter name="VCALENDAR"><C:comp-filter name="VEVENT"/></C:comp-filter></C:filter>' % NS
r = run(s, F_EV)
res.append(("X7 query with an unparseable member present, repeated: %s" % r, len({str(x) for x in r}) > 1))
shutil.rmtree(base)
verdict(res)
