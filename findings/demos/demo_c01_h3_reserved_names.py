"""C01/H3: names that listings hide are accepted as members: acknowledged, invisible afterwards, and for
'.xandikos' the collection's metadata is replaced."""
import os, shutil
from common import scratch, make_app, wsgi, verdict

base = scratch()
root = os.path.join(base, "dav"); os.makedirs(root)
app = make_app(root)
CAL = "/user/calendars/calendar"
res = []
put = wsgi(app, "PUT", CAL + "/.xandikos", b"[DEFAULT]\ntype = addressbook\ndisplayname = pwned\n", ct="application/octet-stream")
get = wsgi(app, "GET", CAL + "/.xandikos")
from xandikos import web
web.open_store_from_path.cache_clear()
PF = b'<D:propfind xmlns:D="DAV:"><D:prop><D:displayname/><D:resourcetype/></D:prop></D:propfind>'
body = wsgi(app, "PROPFIND", CAL, PF, headers={"Depth": "0"}, ct="text/xml")[2]
res.append(("git store: PUT .xandikos -> %s, GET -> %s, calendar is now an addressbook named 'pwned': %s"
            % (put[0], get[0], b"addressbook" in body and b"pwned" in body),
            put[0].startswith("201") and get[0].startswith("404")))
from xandikos.store.vdir import VdirStore
v = VdirStore.create(os.path.join(base, "v"))
v.import_one(".xandikos", "application/octet-stream", [b"[DEFAULT]\ncolor = #000000\n"])
res.append(("vdir store: import_one('.xandikos') accepted, listed members: %s" % [n for n, _, _ in v.iter_with_etag()],
            ".xandikos" not in [n for n, _, _ in v.iter_with_etag()] and os.path.exists(os.path.join(base, "v", ".xandikos"))))
v.import_one("x.tmp", "text/calendar", [b"BEGIN:VCALENDAR\r\nEND:VCALENDAR\r\n"])
res.append(("vdir store: import_one('x.tmp') accepted, listed members: %s" % [n for n, _, _ in v.iter_with_etag()],
            "x.tmp" not in [n for n, _, _ in v.iter_with_etag()] and os.path.exists(os.path.join(base, "v", "x.tmp"))))
shutil.rmtree(base)
verdict(res)
