"""C01/O2: MKCOL / MKCALENDAR create the collection and then answer 400 for a bad body;
PROPPATCH applies an earlier <set> before it rejects a later malformed one."""
import os, shutil
from common import scratch, make_app, wsgi, verdict

base = scratch()
root = os.path.join(base, "dav"); os.makedirs(root)
app = make_app(root)
res = []
st = wsgi(app, "MKCOL", "/user/calendars/new1", b"<not-xml", ct="text/xml")[0]
res.append(("MKCOL with unparseable body: %s, collection exists afterwards" % st,
            st.startswith("400") and os.path.isdir(os.path.join(root, "user/calendars/new1"))))
st = wsgi(app, "MKCALENDAR", "/user/calendars/new2", b'<D:wrong xmlns:D="DAV:"/>', ct="text/xml")[0]
res.append(("MKCALENDAR with wrong root element: %s, collection exists afterwards" % st,
            st.startswith("400") and os.path.isdir(os.path.join(root, "user/calendars/new2"))))
PP = (b'<D:propertyupdate xmlns:D="DAV:"><D:set><D:prop><D:displayname>changed</D:displayname></D:prop></D:set>'
      b'<D:set><D:prop/><D:prop/></D:set></D:propertyupdate>')
st = wsgi(app, "PROPPATCH", "/user/calendars/calendar", PP, ct="text/xml")[0]
from xandikos import web
web.open_store_from_path.cache_clear()
PF = b'<D:propfind xmlns:D="DAV:"><D:prop><D:displayname/></D:prop></D:propfind>'
body = wsgi(app, "PROPFIND", "/user/calendars/calendar", PF, headers={"Depth": "0"}, ct="text/xml")[2]
res.append(("PROPPATCH whose 2nd <set> is malformed: %s, but the 1st <set> was applied (displayname now 'changed')" % st,
            not st.startswith("2") and b">changed<" in body))
shutil.rmtree(base)
verdict(res)
