"""Shared helpers for the demonstrations.  These scripts EXECUTE the real code of the repository
under test (default /repo, override with XSTATIC_REPO) - they are demonstrations that a finding
is genuine, never checks.  Run with the repository's interpreter:  /venv/bin/python demo_xxx.py

Exit status: 1 = defect reproduced, 0 = not reproduced (e.g. after a repair).
"""
import io
import os
import sys
import tempfile

REPO = os.environ.get("XSTATIC_REPO", "/repo")
sys.path.insert(0, REPO)

# --- sandbox shim: dulwich 1.2.15 has no Repo.do_commit, icalendar 7 turned component_factory into a module.
# It changes nothing in xandikos itself.
import dulwich.repo  # noqa: E402

if not hasattr(dulwich.repo.Repo, "do_commit"):
    def do_commit(self, message=None, tree=None, ref=b"HEAD", author=None, **kw):
        return self.get_worktree().commit(message=message, tree=tree, ref=ref, author=author or b"x <x@x>",
                                          committer=b"x <x@x>", **kw)
    dulwich.repo.Repo.do_commit = do_commit
import xandikos.icalendar as _xi  # noqa: E402

if not hasattr(_xi.component_factory, "__getitem__"):
    from icalendar.cal import ComponentFactory
    _xi.component_factory = ComponentFactory()
    import xandikos.caldav as _xc
    _xc.component_factory = _xi.component_factory


def scratch():
    return tempfile.mkdtemp(prefix="xdemo-")


def make_app(root, defaults=True):
    from xandikos.web import XandikosApp, XandikosBackend
    backend = XandikosBackend(root)
    backend._mark_as_principal("/user/")
    backend.create_principal("/user/", create_defaults=defaults)
    return XandikosApp(backend, "/user/")


def wsgi(app, method, path, body=b"", headers=None, ct=None, script=""):
    env = {"REQUEST_METHOD": method, "SCRIPT_NAME": script, "PATH_INFO": path, "wsgi.input": io.BytesIO(body),
           "CONTENT_LENGTH": str(len(body)), "SERVER_NAME": "x", "SERVER_PORT": "80", "wsgi.url_scheme": "http",
           "QUERY_STRING": ""}
    if ct:
        env["CONTENT_TYPE"] = ct
    for k, v in (headers or {}).items():
        env["HTTP_" + k.upper().replace("-", "_")] = v
    out = {}

    def sr(status, hdrs):
        out["status"] = status
        out["headers"] = hdrs
    try:
        b = b"".join(app(env, sr))
    except Exception as e:  # an unhandled exception is a 500
        return ("500 EXC %s" % type(e).__name__, {}, repr(e).encode())
    return (out["status"], dict(out["headers"]), b)


def ics(uid, summary="s", kind="VTODO", extra=""):
    return [("BEGIN:VCALENDAR\r\nVERSION:2.0\r\nPRODID:-//x//y//EN\r\nBEGIN:%s\r\nUID:%s\r\nSUMMARY:%s\r\n%sEND:%s\r\nEND:VCALENDAR\r\n"
             % (kind, uid, summary, extra, kind)).encode()]


def verdict(results):
    """results: list of (label, reproduced: bool)."""
    any_rep = False
    for label, rep in results:
        print("%-14s %s" % ("REPRODUCED" if rep else "not reproduced", label))
        any_rep = any_rep or rep
    sys.exit(1 if any_rep else 0)
