"""Demonstrations for the defects that were repaired by `fix:` commits in /repo.
Run against the pre-fix snapshot to reproduce them, against /repo to see them gone:

    XSTATIC_REPO=/tmp/xw_base /venv/bin/python demo_fixed_defects.py     # every line REPRODUCED, exit 1
    /venv/bin/python demo_fixed_defects.py                               # every line "not reproduced", exit 0
"""
import os, shutil
from datetime import datetime, timezone
from zoneinfo import ZoneInfo
from xml.etree import ElementTree as ET
from common import scratch, make_app, wsgi, ics, verdict

base = scratch()
root = os.path.join(base, "data", "dav"); os.makedirs(root)
app = make_app(root)
res = []
CAL = "/user/calendars/calendar"

# C13/P1  path escape
r = wsgi(app, "MKCOL", "/../evil")
res.append(("C13/P1 MKCOL /../evil -> %s; directory outside the root exists: %s" % (r[0], os.path.isdir(os.path.join(base, "data", "evil"))),
            os.path.isdir(os.path.join(base, "data", "evil"))))
r = wsgi(app, "MKCALENDAR", "/user/calendars/../../../evil2")
res.append(("C13/P1 MKCALENDAR /user/calendars/../../../evil2 -> %s; outside: %s" % (r[0], os.path.isdir(os.path.join(base, "data", "evil2"))),
            os.path.isdir(os.path.join(base, "data", "evil2"))))

# C03/H1  conditional headers through WSGI
body = b"".join(ics("U1", "v0"))
r0 = wsgi(app, "PUT", CAL + "/a.ics", body, ct="text/calendar")
r1 = wsgi(app, "PUT", CAL + "/a.ics", b"".join(ics("U1", "v1")), ct="text/calendar", headers={"If-Match": '"0000000000000000000000000000000000000000"'})
res.append(("C03/H1 PUT with a stale If-Match through WSGI -> %s" % r1[0], r1[0].startswith("2")))
r2 = wsgi(app, "PUT", CAL + "/a.ics", b"".join(ics("U1", "v2")), ct="text/calendar", headers={"If-None-Match": "*"})
res.append(("C03/H1 PUT If-None-Match: * on an existing resource -> %s" % r2[0], r2[0].startswith("2")))

# C06/U2  UID stays reserved
from xandikos.store.vdir import VdirStore
from xandikos.icalendar import ICalendarFile
v = VdirStore.create(os.path.join(base, "v")); v.load_extra_file_handler(ICalendarFile)
v.import_one("a.ics", "text/calendar", ics("OLD"))
v.import_one("a.ics", "text/calendar", ics("NEW"))
try:
    v.import_one("b.ics", "text/calendar", ics("OLD")); refused = False
except Exception as e:
    refused = type(e).__name__
res.append(("C06/U2 a.ics changes UID OLD->NEW, then b.ics with UID OLD: refused=%s" % refused, bool(refused)))

# C15/M2, M3  metadata
from xandikos.store.git import TreeGitStore
t = TreeGitStore.create(os.path.join(base, "t"))
t.config.set_order("7")
try: got = t.config.get_order()
except KeyError: got = None
res.append(("C15/M2 set_order('7') then get_order() on a fresh config object -> %r" % got, got != "7"))
try:
    t.config.set_displayname("100%%"); back = t.config.get_displayname()
except Exception as e:
    back = "EXC %s" % type(e).__name__
res.append(("C15/M3 set_displayname('100%%%%') reads back %r" % back, back != "100%%"))

# C12/A1, A2  collations
from xandikos import collation
ew = collation.collations["i;octet"]("abc", "zzz", "ends-with")
res.append(("C12/A1 'abc' ends-with 'zzz' -> %s" % ew, ew is True))
try: collation.collations["i;ascii-casemap"]("Zoë", "zo", "contains"); a2 = False
except UnicodeError: a2 = True
res.append(("C12/A2 i;ascii-casemap on 'Zoë' raises UnicodeError: %s" % a2, a2))

# C11/D1, D2  filter parsing
from xandikos import caldav
from xandikos.icalendar import CalendarFilter, apply_time_range_vtodo, apply_time_range_vevent, as_tz_aware_ts
NS = "urn:ietf:params:xml:ns:caldav"
def parse(xml):
    try: caldav.parse_filter(ET.fromstring(xml), CalendarFilter(ZoneInfo("UTC"))); return None
    except Exception as e: return type(e).__name__
e1 = parse('<C:filter xmlns:C="%s"><C:comp-filter name="VCALENDAR"><C:comp-filter name="VTODO"><C:is-not-defined/></C:comp-filter></C:comp-filter></C:filter>' % NS)
res.append(("C11/D1 comp-filter with is-not-defined -> %s" % e1, e1 is not None))
e2 = parse('<C:filter xmlns:C="%s"><C:comp-filter name="VCALENDAR"><C:comp-filter name="VEVENT"><C:prop-filter name="ATTENDEE"><C:param-filter name="PARTSTAT">'
           '<C:text-match>NEEDS-ACTION</C:text-match></C:param-filter></C:prop-filter></C:comp-filter></C:comp-filter></C:filter>' % NS)
res.append(("C11/D2 param-filter with text-match -> %s" % e2, e2 is not None))

# C11/R1  section 9.9 rows
from icalendar.cal import Calendar
tz = lambda dt: as_tz_aware_ts(dt, ZoneInfo("UTC"))
U = lambda *a: datetime(*a, tzinfo=timezone.utc)
def comp(bodytxt, kind="VTODO"):
    return Calendar.from_ical(("BEGIN:VCALENDAR\r\nVERSION:2.0\r\nPRODID:x\r\nBEGIN:%s\r\nUID:u\r\n%sEND:%s\r\nEND:VCALENDAR\r\n" % (kind, bodytxt, kind)).encode()).subcomponents[0]
a = apply_time_range_vtodo(U(2020, 1, 1), U(2020, 1, 2), comp("DTSTART:20200110T000000Z\r\nDUE:20200112T000000Z\r\n"), tz)
res.append(("C11/R1 VTODO 10-12 Jan, range 1-2 Jan -> %s (table: False)" % a, a is True))
b = apply_time_range_vtodo(U(2020, 1, 1), U(2020, 1, 10), comp("CREATED:20200110T000000Z\r\n"), tz)
res.append(("C11/R1 VTODO CREATED only, end == CREATED -> %s (table: False)" % b, b is True))
c = apply_time_range_vevent(U(2020, 1, 10), U(2020, 1, 11), comp("DTSTART:20200110T000000Z\r\nDURATION:PT0S\r\n", "VEVENT"), tz)
res.append(("C11/R1 VEVENT zero DURATION, start == DTSTART -> %s (table: True)" % c, c is False))

# C16/F1  non-ASCII member through WSGI
vc = "BEGIN:VCARD\r\nVERSION:3.0\r\nFN:A B\r\nN:B;A;;;\r\nUID:u9\r\nEND:VCARD\r\n".encode()
name_l1 = "/user/contacts/addressbook/é.vcf".encode("utf-8").decode("iso-8859-1")   # what PEP 3333 delivers
r = wsgi(app, "PUT", name_l1, vc, ct="text/vcard")
stored = os.listdir(os.path.join(root, "user/contacts/addressbook"))
res.append(("C16/F1 PUT é.vcf through WSGI -> %s, files: %s" % (r[0], [s for s in stored if s.endswith(".vcf")]),
            "é.vcf" not in stored))

# C16/Q2  request.url in hrefs
PP = b'<D:propertyupdate xmlns:D="DAV:"><D:set><D:prop><D:displayname>x</D:displayname></D:prop></D:set></D:propertyupdate>'
r = wsgi(app, "PROPPATCH", CAL, PP, ct="text/xml")
res.append(("C16/Q2 PROPPATCH multistatus href: %s" % (r[2][r[2].find(b"href>"):][:60]), b"http%3A" in r[2]))

# C16/Q3  Location of POST
wsgi(app, "MKCOL", "/user/contacts/my boék".encode("utf-8").decode("iso-8859-1"))
r = wsgi(app, "POST", "/user/contacts/my boék".encode("utf-8").decode("iso-8859-1"),
         "BEGIN:VCARD\r\nVERSION:3.0\r\nFN:C D\r\nN:D;C;;;\r\nUID:u10\r\nEND:VCARD\r\n".encode(), ct="text/vcard")
loc = r[1].get("Location", "")
res.append(("C16/Q3 POST Location: %r" % loc, (" " in loc) or any(ord(ch) > 127 for ch in loc) or not loc))

# C04/A2  vdir metadata written in place (structural: a crash point exists iff the file is opened for writing under its own name)
import builtins
opened = []
orig_open = builtins.open
def spy(path, mode="r", *a, **kw):
    if isinstance(path, str) and ("w" in mode) and os.path.dirname(path) == os.path.join(base, "v"):
        opened.append(os.path.basename(path))
    return orig_open(path, mode, *a, **kw)
builtins.open = spy
try:
    v.set_displayname("name"); v.config.set_color("#112233")
finally:
    builtins.open = orig_open
res.append(("C04/A2 vdir metadata files opened for writing in place: %s" % [o for o in opened if not o.endswith(".tmp")],
            any(not o.endswith(".tmp") for o in opened)))
shutil.rmtree(base)
verdict(res)
