import os, sys, tempfile, shutil, io, asyncio
sys.path.insert(0, '/repo')
import os as _os, sys as _sys; _sys.path.insert(0, _os.path.dirname(_os.path.abspath(__file__)))
import shim
from xandikos.web import XandikosApp, XandikosBackend
from xandikos import webdav
base = tempfile.mkdtemp(prefix='xp-')
root = os.path.join(base, 'data', 'dav'); os.makedirs(root)
backend = XandikosBackend(root)
backend._mark_as_principal('/user/')
backend.create_principal('/user/', create_defaults=True)
app = XandikosApp(backend, '/user/')
def req(method, path, body=b'', headers=None, ct=None):
    env = {'REQUEST_METHOD': method, 'SCRIPT_NAME': '', 'PATH_INFO': path, 'wsgi.input': io.BytesIO(body),
           'CONTENT_LENGTH': str(len(body)), 'SERVER_NAME':'x','SERVER_PORT':'80','wsgi.url_scheme':'http', 'QUERY_STRING': ''}
    if ct: env['CONTENT_TYPE']=ct
    for k,v in (headers or {}).items(): env['HTTP_'+k.upper().replace('-','_')]=v
    out={}
    def sr(status, hdrs): out['status']=status; out['headers']=hdrs
    try:
        b = b''.join(app(env, sr))
    except Exception as e:
        return ('EXC', repr(e), None)
    return (out['status'], dict(out['headers']), b)
# 1. MKCOL traversal
print(req('MKCOL', '/../evil'))
print('outside exists:', os.path.exists(os.path.join(base,'data','evil')), os.listdir(os.path.join(base,'data')))
print(req('MKCALENDAR', '/user/calendars/../../../evil2'))
print(os.listdir(os.path.join(base,'data')))
# 2. If-Match through WSGI (vcard on addressbook to avoid ical issue)
vc = b"BEGIN:VCARD\r\nVERSION:3.0\r\nFN:A B\r\nN:B;A;;;\r\nUID:u1\r\nEND:VCARD\r\n"
r = req('PUT', '/user/contacts/addressbook/a.vcf', vc, ct='text/vcard'); print(r[0], r[1])
r = req('PUT', '/user/contacts/addressbook/a.vcf', vc.replace(b'A B', b'C D'), headers={'If-Match': '"deadbeef"'}, ct='text/vcard'); print('stale If-Match ->', r[0])
r = req('PUT', '/user/contacts/addressbook/a.vcf', vc.replace(b'A B', b'E F'), headers={'If-None-Match': '*'}, ct='text/vcard'); print('If-None-Match * on existing ->', r[0])
r = req('DELETE', '/user/contacts/addressbook/a.vcf', headers={'If-Match': '"deadbeef"'}); print('DELETE stale If-Match ->', r[0])
# 3. DELETE /x/..
print(req('DELETE', '/user/..')[0]); print('root exists', os.path.exists(root))
shutil.rmtree(base)
