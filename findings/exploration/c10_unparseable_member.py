import os, sys, tempfile, shutil
sys.path.insert(0, '/repo')
import os as _os, sys as _sys; _sys.path.insert(0, _os.path.dirname(_os.path.abspath(__file__)))
import shim
from xandikos import caldav
from xandikos.store.vdir import VdirStore
from xandikos.icalendar import ICalendarFile, CalendarFilter
from xml.etree import ElementTree as ET
from zoneinfo import ZoneInfo
NS='urn:ietf:params:xml:ns:caldav'
def flt(xml): return caldav.parse_filter(ET.fromstring(xml), CalendarFilter(ZoneInfo('UTC')))
base = tempfile.mkdtemp(prefix='xp-')
s = VdirStore.create(os.path.join(base,'v')); s.load_extra_file_handler(ICalendarFile)
ev = ("BEGIN:VCALENDAR\r\nVERSION:2.0\r\nPRODID:x\r\nBEGIN:VEVENT\r\nUID:e1\r\nDTSTART:20200110T000000Z\r\nEND:VEVENT\r\nEND:VCALENDAR\r\n").encode()
s.import_one('e1.ics','text/calendar',[ev])
open(os.path.join(base,'v','bad.ics'),'wb').write(b'this is not a calendar\n')
F = '<C:filter xmlns:C="%s"><C:comp-filter name="VCALENDAR"><C:comp-filter name="VEVENT"/></C:comp-filter></C:filter>'%NS
for i in range(9):
    try: print(i, sorted(n for n,f,e in s.iter_with_filter(flt(F))))
    except Exception as e: print(i, 'EXC', type(e).__name__, e)
shutil.rmtree(base)
