import os, sys, tempfile, shutil, io, re, urllib.parse
sys.path.insert(0, '/repo')
import os as _os, sys as _sys; _sys.path.insert(0, _os.path.dirname(_os.path.abspath(__file__)))
import shim
from xandikos.web import XandikosApp, XandikosBackend
from xandikos import web
base = tempfile.mkdtemp(prefix='xp-')
root = os.path.join(base, 'data', 'dav'); os.makedirs(root)
backend = XandikosBackend(root)
backend._mark_as_principal('/user/')
backend.create_principal('/user/', create_defaults=True)
app = XandikosApp(backend, '/user/')
def req(method, rawurlpath, body=b'', headers=None, ct=None, script=''):
    # what a WSGI server does: percent-decode the request target to bytes, present as latin-1 str
    path = urllib.parse.unquote_to_bytes(rawurlpath).decode('latin-1')
    env = {'REQUEST_METHOD': method, 'SCRIPT_NAME': script, 'PATH_INFO': path, 'wsgi.input': io.BytesIO(body),
           'CONTENT_LENGTH': str(len(body)), 'SERVER_NAME':'x','SERVER_PORT':'80','wsgi.url_scheme':'http', 'QUERY_STRING': ''}
    if ct: env['CONTENT_TYPE']=ct
    for k,v in (headers or {}).items(): env['HTTP_'+k.upper().replace('-','_')]=v
    out={}
    def sr(status, hdrs): out['status']=status; out['headers']=hdrs
    try:
        b = b''.join(app(env, sr))
    except Exception as e:
        return ('EXC', repr(e), None)
    return (out['status'], dict(out['headers']), b)
AB='/user/contacts/addressbook'
vc = b"BEGIN:VCARD\r\nVERSION:3.0\r\nFN:A B\r\nN:B;A;;;\r\nUID:u1\r\nEND:VCARD\r\n"
r = req('PUT', AB + '/' + urllib.parse.quote('é.vcf'), vc, ct='text/vcard'); print('PUT', r[0])
print(os.listdir(os.path.join(root,'user','contacts','addressbook')))
PF = b'<D:propfind xmlns:D="DAV:"><D:prop><D:getetag/></D:prop></D:propfind>'
r = req('PROPFIND', AB, PF, headers={'Depth':'1'}, ct='text/xml')
hrefs = re.findall(rb'<ns0:href>([^<]*)</ns0:href>', r[2]); print(hrefs)
for h in hrefs:
    print('GET', h, req('GET', h.decode())[0])
shutil.rmtree(base)
