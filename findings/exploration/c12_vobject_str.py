import sys; sys.path.insert(0,'/repo')
import vobject
c = vobject.readOne("BEGIN:VCARD\r\nVERSION:3.0\r\nFN:Jane Doe\r\nN:Doe;Jane;;;\r\nEMAIL;TYPE=work:j@x.org\r\nEND:VCARD\r\n")
for k,v in c.contents.items():
    print(k, [str(x) for x in v], [getattr(x,'value',None) for x in v])
