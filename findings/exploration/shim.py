import dulwich.repo
if not hasattr(dulwich.repo.Repo, "do_commit"):
    def do_commit(self, message=None, tree=None, ref=b"HEAD", author=None, **kw):
        return self.get_worktree().commit(message=message, tree=tree, ref=ref, author=author or b"x <x@x>", committer=b"x <x@x>", **kw)
    dulwich.repo.Repo.do_commit = do_commit
import xandikos.icalendar as xi
if not hasattr(xi.component_factory, "__getitem__"):
    from icalendar.cal import ComponentFactory
    xi.component_factory = ComponentFactory()
    import xandikos.caldav as xc
    xc.component_factory = xi.component_factory
