import os, sys, tempfile, shutil, io, re, urllib.parse
sys.path.insert(0, '/repo')
import os as _os, sys as _sys; _sys.path.insert(0, _os.path.dirname(_os.path.abspath(__file__)))
import shim
from xandikos.web import XandikosApp, XandikosBackend
base = tempfile.mkdtemp(prefix='xp-')
root = os.path.join(base, 'data', 'dav'); os.makedirs(root)
backend = XandikosBackend(root); backend._mark_as_principal('/user/'); backend.create_principal('/user/', create_defaults=True)
app = XandikosApp(backend, '/user/')
def req(method, path, body=b'', headers=None, ct=None, script=''):
    env = {'REQUEST_METHOD': method, 'SCRIPT_NAME': script, 'PATH_INFO': path, 'wsgi.input': io.BytesIO(body),
           'CONTENT_LENGTH': str(len(body)), 'SERVER_NAME':'x','SERVER_PORT':'80','wsgi.url_scheme':'http', 'QUERY_STRING': ''}
    if ct: env['CONTENT_TYPE']=ct
    out={}
    def sr(status, hdrs): out['status']=status; out['headers']=hdrs
    try: b = b''.join(app(env, sr))
    except Exception as e: return ('EXC', repr(e), None)
    return (out['status'], dict(out['headers']), b)
print(req('MKCOL', '/user/calendars/new1', b'<not-xml', ct='text/xml')[0], os.path.isdir(os.path.join(root,'user/calendars/new1')))
print(req('MKCALENDAR', '/user/calendars/new2', b'<D:wrong xmlns:D="DAV:"/>', ct='text/xml')[0], os.path.isdir(os.path.join(root,'user/calendars/new2')))
shutil.rmtree(base)
