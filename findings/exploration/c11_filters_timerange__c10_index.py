import os, sys, tempfile, shutil, io, traceback
sys.path.insert(0, '/repo')
import os as _os, sys as _sys; _sys.path.insert(0, _os.path.dirname(_os.path.abspath(__file__)))
import shim
from xandikos import caldav
from xandikos.store.vdir import VdirStore
from xandikos.icalendar import ICalendarFile, CalendarFilter, apply_time_range_vtodo, apply_time_range_vevent, as_tz_aware_ts
from xml.etree import ElementTree as ET
from zoneinfo import ZoneInfo
from datetime import datetime, timezone
from icalendar.cal import Calendar
NS='urn:ietf:params:xml:ns:caldav'
def t(label, f):
    try: print(label, '->', f())
    except Exception as e: print(label, '-> EXC', type(e).__name__, e)
def flt(xml):
    el = ET.fromstring(xml)
    return caldav.parse_filter(el, CalendarFilter(ZoneInfo('UTC')))
F1 = '<C:filter xmlns:C="%s"><C:comp-filter name="VCALENDAR"><C:comp-filter name="VTODO"><C:is-not-defined/></C:comp-filter></C:comp-filter></C:filter>'%NS
F2 = '<C:filter xmlns:C="%s"><C:comp-filter name="VCALENDAR"><C:comp-filter name="VEVENT"><C:prop-filter name="ATTENDEE"><C:param-filter name="PARTSTAT"><C:text-match>NEEDS-ACTION</C:text-match></C:param-filter></C:prop-filter></C:comp-filter></C:comp-filter></C:filter>'%NS
F3 = '<C:filter xmlns:C="%s"><C:comp-filter name="VCALENDAR"><C:comp-filter name="VEVENT"><C:prop-filter name="ATTENDEE"><C:param-filter name="PARTSTAT"><C:is-not-defined/></C:param-filter></C:prop-filter></C:comp-filter></C:comp-filter></C:filter>'%NS
t('comp is-not-defined', lambda: flt(F1))
t('param text-match', lambda: flt(F2))
t('param is-not-defined', lambda: flt(F3))
tz = lambda dt: as_tz_aware_ts(dt, ZoneInfo('UTC'))
def comp(body, kind='VTODO'):
    c = Calendar.from_ical(("BEGIN:VCALENDAR\r\nVERSION:2.0\r\nPRODID:x\r\nBEGIN:%s\r\nUID:u\r\n%sEND:%s\r\nEND:VCALENDAR\r\n"%(kind,body,kind)).encode())
    return c.subcomponents[0]
U = lambda *a: datetime(*a, tzinfo=timezone.utc)
# VTODO DTSTART=Jan10 DUE=Jan12, window Jan1..Jan2 : RFC => False
t('vtodo dtstart+due window before', lambda: apply_time_range_vtodo(U(2020,1,1), U(2020,1,2), comp("DTSTART:20200110T000000Z\r\nDUE:20200112T000000Z\r\n"), tz))
# CREATED only: end == CREATED: RFC end > CREATED => False
t('vtodo created only end==created', lambda: apply_time_range_vtodo(U(2020,1,1), U(2020,1,10), comp("CREATED:20200110T000000Z\r\n"), tz))
# VEVENT zero duration, start == DTSTART: RFC (start <= DTSTART and end > DTSTART) => True
t('vevent zero duration start==dtstart', lambda: apply_time_range_vevent(U(2020,1,10), U(2020,1,11), comp("DTSTART:20200110T000000Z\r\nDURATION:PT0S\r\n", 'VEVENT'), tz))
# index path with param filter is-not-defined after threshold
base = tempfile.mkdtemp(prefix='xp-')
s = VdirStore.create(os.path.join(base,'v')); s.load_extra_file_handler(ICalendarFile)
ev = ("BEGIN:VCALENDAR\r\nVERSION:2.0\r\nPRODID:x\r\nBEGIN:VEVENT\r\nUID:e1\r\nDTSTART:20200110T000000Z\r\nATTENDEE:mailto:a@b\r\nEND:VEVENT\r\nEND:VCALENDAR\r\n").encode()
s.import_one('e1.ics','text/calendar',[ev])
# two VEVENTs in one resource: first without DTEND far in past, second in window
ev2 = ("BEGIN:VCALENDAR\r\nVERSION:2.0\r\nPRODID:x\r\nBEGIN:VEVENT\r\nUID:e2\r\nDTSTART:20100110T000000Z\r\nDTEND:20100110T010000Z\r\nEND:VEVENT\r\nBEGIN:VEVENT\r\nUID:e2\r\nRECURRENCE-ID:20200110T000000Z\r\nDTSTART:20200110T000000Z\r\nDTEND:20200110T010000Z\r\nEND:VEVENT\r\nEND:VCALENDAR\r\n").encode()
s.import_one('e2.ics','text/calendar',[ev2])
F4 = '<C:filter xmlns:C="%s"><C:comp-filter name="VCALENDAR"><C:comp-filter name="VEVENT"><C:time-range start="20200109T000000Z" end="20200111T000000Z"/></C:comp-filter></C:comp-filter></C:filter>'%NS
for i in range(8):
    t('query F4 #%d'%i, lambda: sorted(n for n,f,e in s.iter_with_filter(flt(F4))))
for i in range(8):
    t('query F3 #%d'%i, lambda: sorted(n for n,f,e in s.iter_with_filter(flt(F3))))
shutil.rmtree(base)
