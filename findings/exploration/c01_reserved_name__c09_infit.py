import os, sys, tempfile, shutil, io, subprocess
sys.path.insert(0, '/repo')
import os as _os, sys as _sys; _sys.path.insert(0, _os.path.dirname(_os.path.abspath(__file__)))
import shim
from xandikos.web import XandikosApp, XandikosBackend
base = tempfile.mkdtemp(prefix='xp-')
root = os.path.join(base, 'data', 'dav'); os.makedirs(root)
backend = XandikosBackend(root)
backend._mark_as_principal('/user/')
backend.create_principal('/user/', create_defaults=True)
app = XandikosApp(backend, '/user/')
def req(method, path, body=b'', headers=None, ct=None):
    env = {'REQUEST_METHOD': method, 'SCRIPT_NAME': '', 'PATH_INFO': path, 'wsgi.input': io.BytesIO(body),
           'CONTENT_LENGTH': str(len(body)), 'SERVER_NAME':'x','SERVER_PORT':'80','wsgi.url_scheme':'http', 'QUERY_STRING': ''}
    if ct: env['CONTENT_TYPE']=ct
    for k,v in (headers or {}).items(): env['HTTP_'+k.upper().replace('-','_')]=v
    out={}
    def sr(status, hdrs): out['status']=status; out['headers']=hdrs
    try:
        b = b''.join(app(env, sr))
    except Exception as e:
        import traceback; 
        return ('EXC', repr(e), None)
    return (out['status'], dict(out['headers']), b)
CAL='/user/calendars/calendar'
PF = b'<D:propfind xmlns:D="DAV:"><D:prop><D:displayname/><D:resourcetype/></D:prop></D:propfind>'
r = req('PROPFIND', CAL, PF, headers={'Depth':'0'}, ct='text/xml'); print(r[0], r[2][:400])
# H3: PUT .xandikos
r = req('PUT', CAL+'/.xandikos', b'[DEFAULT]\ntype = addressbook\ndisplayname = pwned\n', ct='application/octet-stream'); print('PUT .xandikos', r[0], r[1])
r = req('GET', CAL+'/.xandikos'); print('GET .xandikos', r[0])
from xandikos import web; web.open_store_from_path.cache_clear()
r = req('PROPFIND', CAL, PF, headers={'Depth':'0'}, ct='text/xml'); print(r[0], r[2][:600])
# C16/Q2: POST Location for collection with space / non-ascii
r = req('MKCOL', '/user/contacts/my%20bo\xc3\xa9k'.encode('latin-1').decode('latin-1')); print('MKCOL', r[0])
print(os.listdir(os.path.join(root,'user','contacts')))
vc = b"BEGIN:VCARD\r\nVERSION:3.0\r\nFN:A B\r\nN:B;A;;;\r\nUID:u1\r\nEND:VCARD\r\n"
r = req('POST', '/user/contacts/my bo\xc3\xa9k', vc, ct='text/vcard'); print('POST', r[0], r[1])
# K4: infit settings in a PrincipalCollection (git store of type principal)
MK = b'<D:mkcol xmlns:D="DAV:"><D:set><D:prop><D:resourcetype><D:principal/></D:resourcetype></D:prop></D:set></D:mkcol>'
r = req('MKCOL', '/p2', MK, ct='text/xml'); print('MKCOL principal', r[0], r[2][:300])
web.open_store_from_path.cache_clear()
PP = b'<D:propertyupdate xmlns:D="DAV:" xmlns:I="http://inf-it.com/ns/dav/"><D:set><D:prop><I:settings>{"a":1}</I:settings></D:prop></D:set></D:propertyupdate>'
r = req('PROPPATCH', '/p2', PP, ct='text/xml'); print('PROPPATCH infit', r[0], r[2][:300])
print(subprocess.run(['git','status','--porcelain'], cwd=os.path.join(root,'p2'), capture_output=True, text=True).stdout)
shutil.rmtree(base)
