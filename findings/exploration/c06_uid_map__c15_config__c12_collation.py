import os, sys, tempfile, shutil, io, traceback
sys.path.insert(0, '/repo')
import os as _os, sys as _sys; _sys.path.insert(0, _os.path.dirname(_os.path.abspath(__file__)))
import shim
from xandikos.store.vdir import VdirStore
from xandikos.store.git import TreeGitStore, BareGitStore
from xandikos.store import DuplicateUidError
from xandikos.icalendar import ICalendarFile, CalendarFilter
from xandikos.vcard import VCardFile
from zoneinfo import ZoneInfo
def ics(uid, summary='s', extra=''):
    return [("BEGIN:VCALENDAR\r\nVERSION:2.0\r\nPRODID:-//x//y//EN\r\nBEGIN:VTODO\r\nUID:%s\r\nSUMMARY:%s\r\n%sEND:VTODO\r\nEND:VCALENDAR\r\n" % (uid, summary, extra)).encode()]
base = tempfile.mkdtemp(prefix='xp-')
def t(label, f):
    try: print(label, '->', f())
    except Exception as e: print(label, '-> EXC', type(e).__name__, e)
for cls in (VdirStore, TreeGitStore, BareGitStore):
    s = cls.create(os.path.join(base, cls.__name__)); s.load_extra_file_handler(ICalendarFile)
    print('==', cls.__name__)
    t('put a U1', lambda: s.import_one('a.ics', 'text/calendar', ics('U1'), message='m'))
    t('put x U9', lambda: s.import_one('x.ics', 'text/calendar', ics('U9'), message='m'))
    t('put a U2', lambda: s.import_one('a.ics', 'text/calendar', ics('U2'), message='m'))
    t('put y U8', lambda: s.import_one('y.ics', 'text/calendar', ics('U8'), message='m'))
    t('put b U1 (U1 is free now)', lambda: s.import_one('b.ics', 'text/calendar', ics('U1'), message='m'))
# configparser
s = VdirStore.create(os.path.join(base, 'v2'))
t('set desc 100%%', lambda: s.set_description('100%%'))
t('get desc', lambda: VdirStore(os.path.join(base, 'v2')).get_description())
t('set desc 100%', lambda: s.set_description('100%'))
s = TreeGitStore.create(os.path.join(base, 't2'))
t('set order', lambda: s.config.set_order('7'))
t('get order same obj', lambda: s.config.get_order())
t('set_displayname', lambda: s.set_displayname('dn'))
t('get order after reopen', lambda: TreeGitStore.open_from_path(os.path.join(base, 't2')).config.get_order())
t('displayname after reopen', lambda: TreeGitStore.open_from_path(os.path.join(base, 't2')).get_displayname())
from xandikos import collation
t('ends-with', lambda: collation.collations['i;octet']('hello', 'xyz', 'ends-with'))
t('ascii-casemap nonascii', lambda: collation.collations['i;ascii-casemap']('héllo', 'x', 'contains'))
shutil.rmtree(base)
