import os, sys, tempfile, shutil, io, subprocess
sys.path.insert(0, '/repo')
import os as _os, sys as _sys; _sys.path.insert(0, _os.path.dirname(_os.path.abspath(__file__)))
import shim
from xandikos.web import XandikosApp, XandikosBackend
from xandikos import web
base = tempfile.mkdtemp(prefix='xp-')
root = os.path.join(base, 'data', 'dav'); os.makedirs(root)
backend = XandikosBackend(root)
backend._mark_as_principal('/user/')
backend.create_principal('/user/', create_defaults=True)
app = XandikosApp(backend, '/user/')
def req(method, path, body=b'', headers=None, ct=None, script=''):
    # WSGI: PATH_INFO is decoded, latin-1 "bytes as str"
    env = {'REQUEST_METHOD': method, 'SCRIPT_NAME': script, 'PATH_INFO': path.encode('utf-8').decode('latin-1'), 'wsgi.input': io.BytesIO(body),
           'CONTENT_LENGTH': str(len(body)), 'SERVER_NAME':'x','SERVER_PORT':'80','wsgi.url_scheme':'http', 'QUERY_STRING': ''}
    if ct: env['CONTENT_TYPE']=ct
    for k,v in (headers or {}).items(): env['HTTP_'+k.upper().replace('-','_')]=v
    out={}
    def sr(status, hdrs): out['status']=status; out['headers']=hdrs
    try:
        b = b''.join(app(env, sr))
    except Exception as e:
        return ('EXC', repr(e), None)
    return (out['status'], dict(out['headers']), b)
r = req('MKCOL', '/user/contacts/my boék'); print('MKCOL', r[0])
print(os.listdir(os.path.join(root,'user','contacts')))
web.open_store_from_path.cache_clear()
vc = b"BEGIN:VCARD\r\nVERSION:3.0\r\nFN:A B\r\nN:B;A;;;\r\nUID:u1\r\nEND:VCARD\r\n"
r = req('POST', '/user/contacts/my boék', vc, ct='text/vcard'); print('POST', r[0], r[1])
r = req('PUT', '/user/contacts/my boék/a b#c?d;e+f%g.vcf', vc.replace(b'u1', b'u2'), ct='text/vcard'); print('PUT special', r[0], r[1])
PF = b'<D:propfind xmlns:D="DAV:"><D:prop><D:getetag/></D:prop></D:propfind>'
r = req('PROPFIND', '/user/contacts/my boék', PF, headers={'Depth':'1'}, ct='text/xml'); print(r[0]); 
import re; print(re.findall(rb'<ns0:href>([^<]*)</ns0:href>', r[2]))
r = req('PROPFIND', '/nonexistent', PF, headers={'Depth':'1'}, ct='text/xml'); print(r[0], re.findall(rb'<ns0:href>([^<]*)</ns0:href>', r[2]))
shutil.rmtree(base)
