import os, sys, tempfile, shutil, threading
sys.path.insert(0, '/repo')
import os as _os, sys as _sys; _sys.path.insert(0, _os.path.dirname(_os.path.abspath(__file__)))
import shim
from xandikos.store.git import TreeGitStore, BareGitStore
from xandikos.icalendar import ICalendarFile
def ics(uid, summary='s'):
    return [("BEGIN:VCALENDAR\r\nVERSION:2.0\r\nPRODID:-//x//y//EN\r\nBEGIN:VTODO\r\nUID:%s\r\nSUMMARY:%s\r\nEND:VTODO\r\nEND:VCALENDAR\r\n" % (uid, summary)).encode()]
base = tempfile.mkdtemp(prefix='xp-')
# --- L1: tree store, two conditional updates against the same etag
s = TreeGitStore.create(os.path.join(base,'t')); s.load_extra_file_handler(ICalendarFile)
_, e0 = s.import_one('a.ics', 'text/calendar', ics('U1','v0'), message='m')
barrier = threading.Barrier(2); serial = threading.Lock()
orig = TreeGitStore._import_one
def patched(self, *a, **kw):
    barrier.wait()            # both requests have passed _check_duplicate
    with serial:              # ... and now write one after the other (no lock overlap)
        return orig(self, *a, **kw)
TreeGitStore._import_one = patched
res = {}
def upd(tag):
    try: res[tag] = s.import_one('a.ics', 'text/calendar', ics('U1', tag), message='m', replace_etag=e0)
    except Exception as ex: res[tag] = ('EXC', type(ex).__name__)
ts=[threading.Thread(target=upd,args=(t,)) for t in ('A','B')]
[t.start() for t in ts]; [t.join() for t in ts]
TreeGitStore._import_one = orig
print('tree: If-Match', e0[:8], '->', res)
# --- L2: bare store, two writers of different names
b = BareGitStore.create(os.path.join(base,'b')); b.load_extra_file_handler(ICalendarFile)
b.import_one('base.ics','text/calendar', ics('U0'), message='m')
barrier2 = threading.Barrier(2); serial2 = threading.Lock()
origc = BareGitStore._commit_tree
def patchedc(self, *a, **kw):
    barrier2.wait()           # both have read the tree and built their own new tree
    with serial2:
        return origc(self, *a, **kw)
BareGitStore._commit_tree = patchedc
res2={}
def put(name, uid):
    try: res2[name] = b.import_one(name,'text/calendar', ics(uid), message='m')
    except Exception as ex: res2[name] = ('EXC', type(ex).__name__, str(ex))
ts=[threading.Thread(target=put,args=a) for a in (('x.ics','UX'),('y.ics','UY'))]
[t.start() for t in ts]; [t.join() for t in ts]
BareGitStore._commit_tree = origc
print('bare: results', res2)
print('bare: members now', sorted(n for n,_,_ in b.iter_with_etag()))
shutil.rmtree(base)
