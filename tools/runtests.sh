#!/bin/sh
# run the pinned suite and compare with the 109 stable tests
cd /repo && /venv/bin/python -m pytest -q -p no:cacheprovider --timeout=900 --continue-on-collection-errors --junitxml=/tmp/junit.xml >/tmp/pytest.out 2>&1
/venv/bin/python - <<'PY'
import json,xml.etree.ElementTree as ET
b=json.load(open('/root/.vp/BASELINE.json'))
stable=set(b['stable_pass'])
t=ET.parse('/tmp/junit.xml')
passed=set()
for tc in t.iter('testcase'):
    name=tc.get('classname')+'::'+tc.get('name')
    if not any(c.tag in('failure','error','skipped') for c in tc): passed.add(name)
missing=stable-passed
print('passed',len(passed),'stable missing',len(missing))
for m in sorted(missing): print('  MISSING',m)
PY
