#!/usr/bin/env python3
"""Developer tool: confirm a behaviour-preserving refactoring and run every check against it.

usage: try_benign.py <id> <abs dir with patch.diff notes.md> [--keep]

1. in the scratch worktree /tmp/seed/verify: apply the patch, run the pinned suite (must stay 109/109), undo;
2. apply the patch to /repo, run all 18 quick checks, undo straight afterwards (git -C /repo checkout -- .);
   every check must exit 0 and print no VIOLATION / ANALYSIS-ERROR line;
3. with --keep, store patch/notes + meta.json under /verif/benign/<id>/ (replayed by the thorough tier).
"""
import json, os, shutil, subprocess, sys
from concurrent.futures import ThreadPoolExecutor

VERIF = os.path.dirname(os.path.dirname(os.path.abspath(__file__)))
WT = os.environ.get("SEED_WT", "/tmp/seed/verify")
bid, src = sys.argv[1], sys.argv[2]
keep = "--keep" in sys.argv
patch = os.path.join(src, "patch.diff")


def sh(cmd, cwd=None, timeout=900):
    p = subprocess.run(cmd, shell=True, cwd=cwd, capture_output=True, text=True, timeout=timeout)
    return p.returncode, p.stdout + p.stderr


meta = {"id": bid, "source_dir": src}
sh("git checkout -- . && git clean -fdq", WT)
rc, out = sh("git apply --whitespace=nowarn %s" % patch, WT)
if rc != 0:
    print("patch does not apply:", out); sys.exit(2)
rc, out = sh("/tmp/seed/runtests.sh %s" % WT)
meta["suite_with_change"] = out.strip().splitlines()[-1] if out.strip() else ""
meta["suite_ok"] = rc == 0
rc, out = sh("/venv/bin/python -m compileall -q xandikos", WT)
meta["compiles"] = rc == 0
sh("git checkout -- . && git clean -fdq", WT)
print("suite:", meta["suite_with_change"], "| compiles:", meta["compiles"])

import fcntl
_lock = open("/tmp/seed/repo.lock", "w")
fcntl.flock(_lock, fcntl.LOCK_EX)
rc, out = sh("git -C /repo status --porcelain")
if out.strip():
    print("/repo is not clean; refusing", out); sys.exit(2)
rc, out = sh("git -C /repo apply --whitespace=nowarn %s" % patch)
results = {}
try:
    props = ["C%02d" % i for i in range(1, 19)]
    evdir = "/tmp/seed/evbn_%s" % bid

    def one(p):
        r, o = sh("python3 -m xstatic.check --property %s --tier quick --quiet --evidence-dir %s" % (p, evdir), VERIF)
        viol = [l for l in o.splitlines() if l.startswith("C") and " violated " in l]
        errs = [l for l in o.splitlines() if l.startswith("ANALYSIS-ERROR")]
        return p, r, viol, errs, o

    with ThreadPoolExecutor(8) as ex:
        for p, r, viol, errs, o in ex.map(one, props):
            if r != 0:
                results[p] = {"exit": r, "violated": [v.split(" violated ")[0] + " " + v.split()[-1] for v in viol], "errors": errs[:3],
                              "messages": [l.strip() for l in o.splitlines() if l.startswith("   ") and not l.startswith("   ok") and not l.startswith("   rule") and "analysed" not in l and "evidence" not in l][:6]}
    shutil.rmtree(evdir, ignore_errors=True)
finally:
    sh("git -C /repo checkout -- . && git -C /repo clean -fdq")
meta["checks_reporting"] = results
meta["silent"] = not results
print("noisy checks:", json.dumps(results, indent=1) if results else "NONE (all 18 silent)")
if keep:
    dst = os.path.join(VERIF, "benign", bid)
    os.makedirs(dst, exist_ok=True)
    prev = os.path.join(dst, "meta.json")
    if os.path.exists(prev):
        old = json.load(open(prev))
        meta["first_contact"] = old.get("first_contact")
    else:
        meta["first_contact"] = {"silent": meta["silent"], "noisy": {p: v["violated"] or v["errors"] for p, v in results.items()},
                                 "verif_commit": sh("git -C %s rev-parse --short HEAD" % VERIF)[1].strip()}
    for f in ("patch.diff", "notes.md"):
        if os.path.exists(os.path.join(src, f)):
            shutil.copy(os.path.join(src, f), os.path.join(dst, f))
    json.dump(meta, open(os.path.join(dst, "meta.json"), "w"), indent=1)
