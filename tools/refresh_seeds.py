#!/usr/bin/env python3
"""Developer tool: recompute `checks_reporting` (which rules report each stored seeded change) in
/verif/seeded/*/meta.json with the current checker; first_contact and the confirmation fields are kept."""
import os, sys, json, subprocess, shutil
from concurrent.futures import ProcessPoolExecutor
sys.path.insert(0, os.path.dirname(os.path.dirname(os.path.abspath(__file__))))
PROPS = [p for p in ["C%02d" % i for i in range(1, 19)] if not os.environ.get("XS_PROPS") or p in os.environ["XS_PROPS"].split(",")]
BASE = "/tmp/sdr"

def prep(sid):
    d = os.path.join(BASE, sid)
    shutil.rmtree(d, ignore_errors=True)
    os.makedirs(d)
    subprocess.run("git -C /repo archive HEAD xandikos | tar -x -C %s" % d, shell=True, check=True)
    r = subprocess.run(["git", "apply", "--whitespace=nowarn", "--include=xandikos/*", "/verif/seeded/%s/patch.diff" % sid], cwd=d, capture_output=True, text=True)
    return r.returncode == 0

def base_of(prop):
    from xstatic import core
    return prop, sorted(o.key for o in core.run_property(prop, "/repo", "quick").violated)

def work(a):
    sid, prop, base = a
    base = set(base)
    from xstatic import core
    r = core.run_property(prop, os.path.join(BASE, sid), "quick")
    new = [o for o in r.violated if o.key not in base]
    return sid, prop, ["%s/%s %s" % (prop, o.rule, o.construct) for o in new], [e[:200] for e in r.errors]

if __name__ == "__main__":
    ids = [d for d in sorted(os.listdir("/verif/seeded")) if os.path.exists("/verif/seeded/%s/meta.json" % d)]
    ids = [s for s in ids if prep(s)]
    res = {}
    with ProcessPoolExecutor(16) as ex:
        BASEK = dict(ex.map(base_of, PROPS))
    with ProcessPoolExecutor(16) as ex:
        for sid, prop, viol, errs in ex.map(work, [(s, p, BASEK[p]) for s in ids for p in PROPS], chunksize=2):
            if viol or errs:
                res.setdefault(sid, {})[prop] = {"exit": 1 if viol else 2, "violated": viol, "errors": ["ANALYSIS-ERROR property=%s %s" % (prop, e) for e in errs][:3]}
    own = anyc = 0
    for s in ids:
        mp = "/verif/seeded/%s/meta.json" % s
        meta = json.load(open(mp))
        meta["checks_reporting"] = res.get(s, {})
        meta["detected"] = any(v["exit"] == 1 for v in res.get(s, {}).values())
        json.dump(meta, open(mp, "w"), indent=1)
        det = {p for p, v in res.get(s, {}).items() if v["exit"] == 1}
        own += s[:3] in det
        anyc += bool(det)
    print("refreshed %d seeds: own %d, any %d" % (len(ids), own, anyc))
    shutil.rmtree(BASE, ignore_errors=True)
