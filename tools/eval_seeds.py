#!/usr/bin/env python3
"""Developer tool: run every quick check (in-process) on scratch trees of the stored seeded changes; list which rules report each."""
import os, sys, json, subprocess, shutil
from concurrent.futures import ProcessPoolExecutor
sys.path.insert(0, os.path.dirname(os.path.dirname(os.path.abspath(__file__))))
PROPS = [p for p in ["C%02d" % i for i in range(1, 19)] if not os.environ.get("XS_PROPS") or p in os.environ["XS_PROPS"].split(",")]
BASE = "/tmp/sd"

def prep(sid):
    d = os.path.join(BASE, sid)
    if os.path.isdir(d):
        shutil.rmtree(d)
    os.makedirs(d)
    subprocess.run("git -C /repo archive HEAD xandikos | tar -x -C %s" % d, shell=True, check=True)
    r = subprocess.run(["git", "apply", "--whitespace=nowarn", "--include=xandikos/*", "/verif/seeded/%s/patch.diff" % sid], cwd=d, capture_output=True, text=True)
    return r.returncode == 0

def base_of(prop):
    from xstatic import core
    return prop, sorted(o.key for o in core.run_property(prop, "/repo", "quick").violated)

def work(a):
    sid, prop, base = a
    base = set(base)
    from xstatic import core
    try:
        r = core.run_property(prop, os.path.join(BASE, sid), "quick")
        new = [o for o in r.violated if o.key not in base]
        return sid, prop, sorted({o.rule for o in new}), [e[:160] for e in r.errors]
    except Exception as e:
        return sid, prop, [], ["CRASH %s: %s" % (type(e).__name__, e)]

if __name__ == "__main__":
    pat = sys.argv[1] if len(sys.argv) > 1 else ""
    ids = [d for d in sorted(os.listdir("/verif/seeded")) if pat in d]
    ids = [s for s in ids if prep(s)]
    with ProcessPoolExecutor(16) as ex:
        BASEK = dict(ex.map(base_of, PROPS))
    tasks = [(s, p, BASEK[p]) for s in ids for p in PROPS]
    res = {}
    with ProcessPoolExecutor(16) as ex:
        for sid, prop, rules, errs in ex.map(work, tasks, chunksize=2):
            if rules or errs:
                res.setdefault(sid, {})[prop] = (rules, errs)
    own = anyc = 0
    for s in ids:
        r = res.get(s, {})
        det = {p: v[0] for p, v in r.items() if v[0]}
        errs = {p: v[1] for p, v in r.items() if v[1]}
        o = s[:3] in det
        own += o; anyc += bool(det)
        print("%-9s %s %s %s" % (s, "OWN" if o else ("any" if det else "MISS"), det, ("ERR %s" % errs) if errs else ""))
    print("own %d / any %d / total %d" % (own, anyc, len(ids)))
    shutil.rmtree(BASE, ignore_errors=True)
