#!/usr/bin/env python3
"""Developer tool: run every quick check (in-process) on the scratch trees /tmp/bn/<id> of the stored refactorings."""
import os, sys, json
from concurrent.futures import ProcessPoolExecutor
sys.path.insert(0, os.path.dirname(os.path.dirname(os.path.abspath(__file__))))
PROPS = [p for p in ["C%02d" % i for i in range(1, 19)] if not os.environ.get("XS_PROPS") or p in os.environ["XS_PROPS"].split(",")]

def base_of(prop):
    from xstatic import core
    return prop, sorted(o.key for o in core.run_property(prop, "/repo", "quick").violated)

def work(a):
    bid, prop, base = a
    base = set(base)
    from xstatic import core
    try:
        r = core.run_property(prop, "/tmp/bn/" + bid, "quick")
        new = [o for o in r.violated if o.key not in base]
        return bid, prop, [(o.rule, o.construct.split(".")[-1], o.message[:150]) for o in new], [e[:200] for e in r.errors]
    except Exception as e:
        return bid, prop, [], ["CRASH %s: %s" % (type(e).__name__, e)]

def prep(bid):
    import subprocess
    d = "/tmp/bn/" + bid
    if os.path.isdir(os.path.join(d, "xandikos")):
        return True
    os.makedirs(d, exist_ok=True)
    subprocess.run("git -C /repo archive HEAD xandikos | tar -x -C %s" % d, shell=True, check=True)
    r = subprocess.run(["git", "apply", "--whitespace=nowarn", "--include=xandikos/*", "/verif/benign/%s/patch.diff" % bid], cwd=d, capture_output=True, text=True)
    if r.returncode != 0:
        print("patch of %s does not apply: %s" % (bid, r.stderr[:200]))
    return r.returncode == 0


if __name__ == "__main__":
    ids = sys.argv[1:] or sorted(os.listdir("/verif/benign"))
    ids = [b for b in ids if prep(b)]
    with ProcessPoolExecutor(16) as ex:
        BASE = dict(ex.map(base_of, PROPS))
    tasks = [(b, p, BASE[p]) for b in ids for p in PROPS]
    res = {}
    with ProcessPoolExecutor(16) as ex:
        for bid, prop, new, errs in ex.map(work, tasks, chunksize=2):
            if new or errs:
                res.setdefault(bid, {})[prop] = (new, errs)
    silent = [b for b in ids if b not in res]
    for b in ids:
        if b in res:
            print("==", b)
            for p, (new, errs) in sorted(res[b].items()):
                for n in new:
                    print("   V %s/%s %s: %s" % (p, n[0], n[1], n[2]))
                for e in errs:
                    print("   E %s %s" % (p, e))
    print("silent: %d/%d" % (len(silent), len(ids)), silent)
