#!/usr/bin/env python3
"""Developer aid (never run by a check): regenerate the skeleton of known_findings.json.

known  = violated obligations on /repo's current tree (each must be backed by a demonstration)
fixed  = violated obligations on the pre-fix snapshot that are no longer violated, attributed to a fix commit
The result is merged with the hand-written fields (what/demo/commit) of the existing file.
"""
import json, os, sys
HERE = os.path.dirname(os.path.abspath(__file__))
VERIF = os.path.dirname(HERE)
sys.path.insert(0, VERIF)
from xstatic import core
from xstatic.meta import META

cur_repo, base_repo = sys.argv[1], sys.argv[2]
path = os.path.join(VERIF, "known_findings.json")
old = core.load_known(path) if os.path.exists(path) else {"known": [], "fixed": []}
old_known = {e["key"]: e for e in old["known"]}
old_fixed = {e["key"]: e for e in old["fixed"]}
FIX_COMMITS = {  # (property, rule) -> fix commit in /repo
    ("C13", "P1"): "094a7c2", ("C13", "P2"): "094a7c2", ("C13", "P3"): "094a7c2",
    ("C03", "H1"): "7749e53", ("C06", "U2"): "a91c652", ("C15", "M2"): "5f5bd5b", ("C15", "M3"): "d1813fa",
    ("C12", "A1"): "359268c", ("C12", "A2"): "84d1c7d", ("C11", "D1"): "18618bf", ("C11", "D2"): "40f1949",
    ("C11", "R1"): "467b51c", ("C16", "F1"): "157681b", ("C01", "W5"): "157681b", ("C18", "S13"): "ed01309", ("C16", "Q2"): "ed01309", ("C16", "Q3"): "d4aff69",
    ("C04", "A2"): "a055c8d",
    ("C02", "E16"): "ed01309", ("C12", "A13"): "ed01309", ("C17", "M11"): "094a7c2", ("C01", "W9"): "d4aff69",
}
KNOWN_DEMOS = {
    ("C01", "O2"): ("findings/demos/demo_c01_o2_effect_then_4xx.py",
                    "not small: MKCOL/MKCALENDAR need the whole body parsed and shape-checked before create_collection (apply_modify_prop "
                    "raises while applying), PROPPATCH needs all-or-nothing application with rollback"),
    ("C01", "H3"): ("findings/demos/demo_c01_h3_reserved_names.py",
                    "needs a decision on how a reserved name is refused (status / precondition); no existing refusal maps onto it"),
    ("C05", "L1"): ("findings/demos/demo_c05_lock_discipline.py", "not small: the decision reads have to move inside the index lock (restructures import_one/_import_one)"),
    ("C05", "L2"): ("findings/demos/demo_c05_lock_discipline.py", "not small: needs a lock or compare-and-set on the observed head for bare repositories"),
    ("C05", "L3"): ("findings/demos/demo_c05_lock_discipline.py", "not small: needs a per-store lock around the uid maps"),
    ("C09", "K4"): ("findings/demos/demo_c09_k4_infit.py", "needs a design decision (store inf-it settings in the repository or outside the working tree)"),
    ("C10", "X1"): ("findings/demos/demo_c10_index_transparency.py", "not small: parameter indexes have to be implemented in ICalendarFile._get_index"),
    ("C10", "X3"): ("findings/demos/demo_c10_index_transparency.py", "not small: the index has to keep values grouped per component"),
    ("C10", "X7"): ("findings/demos/demo_c10_index_transparency.py", "small but entangled with X1/X3 (what the index stores for a member that cannot be parsed)"),
    ("C11", "R2"): ("findings/demos/demo_c11_r2_m1.py", "not small: recurrence expansion in the time-range path"),
    ("C11", "M1"): ("findings/demos/demo_c11_r2_m1.py", "cannot be repaired without editing the suite: test_icalendar.TextMatchTest.test_category pins the 'equals' behaviour"),
}
known, fixed = [], []
for p in sorted(META):
    cur = core.run_property(p, cur_repo, "quick")
    base = core.run_property(p, base_repo, "quick")
    ck = {}
    for o in cur.violated:
        ck.setdefault(o.key, o)
    bk = {}
    for o in base.violated:
        bk.setdefault(o.key, o)
    for k, o in ck.items():
        e = old_known.get(k, {})
        demo, disp = KNOWN_DEMOS.get((p, o.rule), ("", ""))
        known.append({"property": p, "rule": o.rule, "key": k,
                      "what": o.message, "demo": demo,
                      "disposition": "known (recorded, not repaired): " + disp})
    for k, o in bk.items():
        if k in ck:
            continue
        e = old_fixed.get(k, {})
        fixed.append({"property": p, "rule": o.rule, "key": k, "commit": FIX_COMMITS.get((p, o.rule), ""),
                      "what": o.message, "demo": "findings/demos/demo_fixed_defects.py"})
json.dump({"_comment": "keyed by property|rule|construct|detail - never by line number; 'fixed' entries suppress nothing",
           "known": known, "fixed": fixed}, open(path, "w"), indent=1)
print(len(known), "known,", len(fixed), "fixed")
