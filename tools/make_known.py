#!/usr/bin/env python3
"""Developer aid (never run by a check): regenerate the skeleton of known_findings.json.

known  = violated obligations on /repo's current tree (each must be backed by a demonstration)
fixed  = violated obligations on the pre-fix snapshot that are no longer violated, attributed to a fix commit
The result is merged with the hand-written fields (what/demo/commit) of the existing file.
"""
import json, os, sys
HERE = os.path.dirname(os.path.abspath(__file__))
VERIF = os.path.dirname(HERE)
sys.path.insert(0, VERIF)
from xstatic import core
from xstatic.meta import META

cur_repo, base_repo = sys.argv[1], sys.argv[2]
path = os.path.join(VERIF, "known_findings.json")
old = core.load_known(path) if os.path.exists(path) else {"known": [], "fixed": []}
old_known = {e["key"]: e for e in old["known"]}
old_fixed = {e["key"]: e for e in old["fixed"]}
known, fixed = [], []
for p in sorted(META):
    cur = core.run_property(p, cur_repo, "quick")
    base = core.run_property(p, base_repo, "quick")
    ck = {}
    for o in cur.violated:
        ck.setdefault(o.key, o)
    bk = {}
    for o in base.violated:
        bk.setdefault(o.key, o)
    for k, o in ck.items():
        e = old_known.get(k, {})
        known.append({"property": p, "rule": o.rule, "key": k,
                      "what": e.get("what", o.message), "demo": e.get("demo", ""),
                      "disposition": e.get("disposition", "")})
    for k, o in bk.items():
        if k in ck:
            continue
        e = old_fixed.get(k, {})
        fixed.append({"property": p, "rule": o.rule, "key": k, "commit": e.get("commit", ""),
                      "what": e.get("what", o.message), "demo": e.get("demo", "")})
json.dump({"_comment": "keyed by property|rule|construct|detail - never by line number; 'fixed' entries suppress nothing",
           "known": known, "fixed": fixed}, open(path, "w"), indent=1)
print(len(known), "known,", len(fixed), "fixed")
