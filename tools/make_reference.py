#!/usr/bin/env python3
"""Freeze the list of function names of the reference tree (developer tool, never run by a check).

usage: make_reference.py [repo]   (default /repo; must be the clean reference tree: pinned commit + fix commits)

The rules were confirmed against these functions.  A function that is not in this list is, for the
analyser, a helper introduced later and is inlined at its call sites (xstatic/inline.py).
"""
import json, os, subprocess, sys
sys.path.insert(0, os.path.dirname(os.path.dirname(os.path.abspath(__file__))))
from xstatic.program import Program

repo = sys.argv[1] if len(sys.argv) > 1 else "/repo"
st = subprocess.run(["git", "-C", repo, "status", "--porcelain"], capture_output=True, text=True).stdout.strip()
if st:
    sys.exit("refusing: %s is not clean\n%s" % (repo, st))
head = subprocess.run(["git", "-C", repo, "rev-parse", "--short", "HEAD"], capture_output=True, text=True).stdout.strip()
P = Program(repo)
names = sorted(f.qualname for f in P.all_funcs())
classes = sorted(P.classes)
out = os.path.join(os.path.dirname(os.path.dirname(os.path.abspath(__file__))), "xstatic", "reference_functions.json")
json.dump({"reference_commit": head, "count": len(names), "functions": names, "classes": classes}, open(out, "w"), indent=0)
print("wrote", out, len(names), "functions at", head)
