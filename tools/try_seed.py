#!/usr/bin/env python3
"""Developer tool: confirm a seeded change and run every check against it.

usage: try_seed.py <seed-id> <dir with patch.diff demo.py notes.md> [--keep]

1. in the scratch worktree /tmp/seed/verify: apply the patch, run the pinned suite (must stay 109/109), run the demo
   (must exit 1), undo, run the demo again (must exit 0);
2. apply the patch to /repo, run all quick checks, undo it straight afterwards (git -C /repo checkout -- .);
3. with --keep, store patch/demo/notes + meta.json under /verif/seeded/<seed-id>/.
"""
import json, os, shutil, subprocess, sys, time
from concurrent.futures import ThreadPoolExecutor

VERIF = os.path.dirname(os.path.dirname(os.path.abspath(__file__)))
WT = os.environ.get("SEED_WT", "/tmp/seed/verify")
sid, src = sys.argv[1], sys.argv[2]
keep = "--keep" in sys.argv
patch = os.path.join(src, "patch.diff")
demo = os.path.join(src, "demo.py")

def sh(cmd, cwd=None, timeout=900):
    p = subprocess.run(cmd, shell=True, cwd=cwd, capture_output=True, text=True, timeout=timeout)
    return p.returncode, p.stdout + p.stderr

meta = {"seed": sid, "source_dir": src}
sh("git checkout -- . && git clean -fdq", WT)
rc, out = sh("git apply --whitespace=nowarn %s" % patch, WT)
meta["applies"] = rc == 0
if rc != 0:
    print("patch does not apply:", out); sys.exit(2)
rc, out = sh("/tmp/seed/runtests.sh %s" % WT)
meta["suite_with_change"] = out.strip().splitlines()[-1] if out.strip() else ""
meta["suite_ok"] = rc == 0
rc1, out1 = sh("/venv/bin/python %s" % demo, WT, timeout=600)
meta["demo_with_change_exit"] = rc1
meta["demo_with_change_tail"] = out1.strip().splitlines()[-3:]
sh("git checkout -- . && git clean -fdq", WT)
rc0, out0 = sh("/venv/bin/python %s" % demo, WT, timeout=600)
meta["demo_without_change_exit"] = rc0
confirmed = meta["suite_ok"] and rc1 == 1 and rc0 == 0
meta["confirmed"] = confirmed
print("suite:", meta["suite_with_change"], "| demo with change exit", rc1, "| without", rc0, "| confirmed:", confirmed)

# run the checks against /repo with the change applied (one seed at a time: /repo is shared)
import fcntl
_lock = open("/tmp/seed/repo.lock", "w")
fcntl.flock(_lock, fcntl.LOCK_EX)
rc, out = sh("git -C /repo status --porcelain")
if out.strip():
    print("/repo is not clean; refusing", out); sys.exit(2)
rc, out = sh("git -C /repo apply --whitespace=nowarn %s" % patch)
results = {}
try:
    props = ["C%02d" % i for i in range(1, 19)]
    evdir = "/tmp/seed/ev_%s" % sid
    def one(p):
        r, o = sh("python3 -m xstatic.check --property %s --tier quick --quiet --evidence-dir %s" % (p, evdir), VERIF)
        viol = [l for l in o.splitlines() if l.startswith("C") and " violated " in l]
        errs = [l for l in o.splitlines() if l.startswith("ANALYSIS-ERROR")]
        return p, r, viol, errs, o
    with ThreadPoolExecutor(8) as ex:
        for p, r, viol, errs, o in ex.map(one, props):
            if r != 0:
                results[p] = {"exit": r, "violated": [v.split(" violated ")[0] + " " + v.split()[-1] for v in viol], "errors": errs[:3],
                              "messages": [l.strip() for l in o.splitlines() if l.startswith("   ") and not l.startswith("   ok") and not l.startswith("   rule") and "analysed" not in l and "evidence" not in l][:4]}
    shutil.rmtree(evdir, ignore_errors=True)
finally:
    sh("git -C /repo checkout -- . && git -C /repo clean -fdq")
meta["checks_reporting"] = results
meta["detected"] = any(v["exit"] == 1 for v in results.values())
print("detected by:", {p: v["violated"] or v["errors"] for p, v in results.items()} or "NOTHING")
if keep:
    dst = os.path.join(VERIF, "seeded", sid)
    os.makedirs(dst, exist_ok=True)
    prev = os.path.join(dst, "meta.json")
    summary = {p: v["violated"] or v["errors"] for p, v in results.items()}
    if os.path.exists(prev):
        old = json.load(open(prev))
        meta["first_contact"] = old.get("first_contact", {"detected": old.get("detected"), "by": {p: v.get("violated") or v.get("errors") for p, v in old.get("checks_reporting", {}).items()}})
    else:
        meta["first_contact"] = {"detected": meta["detected"], "by": summary, "verif_commit": sh("git -C %s rev-parse --short HEAD" % VERIF)[1].strip()}
    for f in ("patch.diff", "demo.py", "notes.md"):
        if os.path.exists(os.path.join(src, f)):
            shutil.copy(os.path.join(src, f), os.path.join(dst, f))
    json.dump(meta, open(os.path.join(dst, "meta.json"), "w"), indent=1)
