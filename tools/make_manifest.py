#!/usr/bin/env python3
"""Regenerate MANIFEST.json from xstatic.meta (claimed properties) and tools/not_applicable.json."""
import json, os, sys
HERE = os.path.dirname(os.path.abspath(__file__))
VERIF = os.path.dirname(HERE)
sys.path.insert(0, VERIF)
from xstatic.meta import META, full_explanation
from xstatic import core
from xstatic import rules  # noqa

props = {}
for l in open(os.path.join(VERIF, "properties.jsonl")):
    p = json.loads(l)
    props[p["id"]] = p
checks = []
for pid in sorted(META):
    if pid not in core.RULES:
        continue
    m = META[pid]
    rl = ", ".join("%s[%s]" % (r.rid, r.kind) for r in core.RULES[pid])
    checks.append({
        "property_id": pid,
        "quick_cmd": "python3 -m xstatic.check --property %s --tier quick --quiet" % pid,
        "thorough_cmd": "python3 -m xstatic.check --property %s --tier thorough --quiet" % pid,
        "evidence_file": "/verif/evidence/%s.json" % pid,
        "replay_cmd_template": "python3 -m xstatic.check --explain {path}",
        "engine": "xstatic",
        "level_claimed": {
            "category": "other",
            "text": "Static analysis of /repo's source (no execution): the structural clauses of the property are decided "
                    "exhaustively over every rule instance found (rules %s; S = structural clause, N = necessary condition). "
                    "The behavioural statement itself is not proved. %s" % (rl, m.get("level_text", "")),
            "design_ref": "DESIGN.md section 4, %s" % pid,
        },
        "level_note": "Decides: " + full_explanation(pid) + " Trusted base: " + "; ".join(m.get("trusted_base", [])) +
                      ". Not decided: " + "; ".join(m.get("not_decided", [])) + ".",
        "technique": m.get("technique", "static analysis: AST + CFG + call-graph rules"),
    })
na_path = os.path.join(HERE, "not_applicable.json")
na = json.load(open(na_path)) if os.path.exists(na_path) else {}
not_app = []
for pid in sorted(props):
    if pid not in [c["property_id"] for c in checks]:
        not_app.append({"property_id": pid, "reason": na.get(pid, "check not built yet (static rules for this property are planned in DESIGN.md section 4; nothing is claimed until they exist)")})
man = {
    "version": 1,
    "setup_cmd": "python3 -c \"import ast, sys; sys.path.insert(0, '/verif'); import xstatic.check\"",
    "hooks": {
        "guard": "JELMER_XANDIKOS_VERIF",
        "enable": "none needed: the checks read /repo's source with ast and never build, import or run it",
        "baseline_off_cmd": "cd /repo && /venv/bin/python -m pytest -ra -q -p no:cacheprovider --timeout=900 --continue-on-collection-errors",
        "source_commits": [],
        "add_only": True,
    },
    "engines": [{
        "name": "xstatic",
        "path": "/verif/xstatic",
        "serves_properties": [c["property_id"] for c in checks],
        "kind_free_text": "repository-specific static analyser on stdlib ast: class table + C3 MRO, resolved call graph, "
                          "statement CFG with exceptional edges, reaching definitions, interprocedural may-raise/effect summaries, "
                          "provenance lattices, dispatch walks and comparison-formula extraction",
    }],
    "checks": checks,
    "not_applicable": not_app,
    "notes": "Technique family: static analysis only. Exit 0 = all obligations discharged or listed in known_findings.json "
             "(KNOWN-FINDING lines); exit 1 = VIOLATION with a replay file naming the construct; exit 2 = ANALYSIS-ERROR "
             "(anchor vanished / unmodelled form), never a silent pass.",
}
json.dump(man, open(os.path.join(VERIF, "MANIFEST.json"), "w"), indent=1)
print(len(checks), "checks,", len(not_app), "not applicable")
