#!/usr/bin/env python3
"""Developer aid: print the keys of the violated obligations of a property on a given tree."""
import json, os, sys
sys.path.insert(0, os.path.dirname(os.path.dirname(os.path.abspath(__file__))))
from xstatic import core

repo = sys.argv[1]
props = sys.argv[2:]
out = []
for p in props:
    r = core.run_property(p, repo, "quick")
    for e in r.errors:
        print("ERR", e, file=sys.stderr)
    seen = set()
    for o in r.violated:
        if o.key in seen:
            continue
        seen.add(o.key)
        out.append({"property": p, "rule": o.rule, "key": o.key, "what": o.message})
print(json.dumps(out, indent=1))
